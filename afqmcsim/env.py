"""Process environment: what must be fixed before jax is imported, scratch dirs,
module-attribute seams (clock, stdout)."""
import contextlib
import os
import shutil
import sys
import tempfile

VERIF_ROOT = os.path.dirname(os.path.dirname(os.path.abspath(__file__)))
GUARD = "ANKIT76_AD_AFQMC_VERIF"


def repo_path():
    return os.environ.get("VERIF_REPO", "/repo")


def child_env(extra=None):
    env = dict(os.environ)
    env["PYTHONHASHSEED"] = env.get("VERIF_HASHSEED", "0")
    env["PYTHONDONTWRITEBYTECODE"] = "1"
    env["PYTHONPATH"] = repo_path() + os.pathsep + VERIF_ROOT
    env["OMP_NUM_THREADS"] = "1"
    env["OPENBLAS_NUM_THREADS"] = "1"
    env["MKL_NUM_THREADS"] = "1"
    env["XLA_FLAGS"] = (
        "--xla_force_host_platform_device_count=1 --xla_cpu_multi_thread_eigen=false "
        "intra_op_parallelism_threads=1"
    )
    env["JAX_PLATFORMS"] = "cpu"
    env[GUARD] = "1"
    env["AFQMCSIM_CHILD"] = "1"
    if extra:
        env.update(extra)
    return env


def scratch_root():
    for base in ("/dev/shm", os.environ.get("TMPDIR", ""), "/tmp"):
        if base and os.path.isdir(base) and os.access(base, os.W_OK):
            return base
    return tempfile.gettempdir()


def make_scratch(prefix):
    return tempfile.mkdtemp(prefix=prefix, dir=scratch_root())


_JAX_READY = False


def init_jax():
    """Import jax with x64 on, through the library's own set-up routine."""
    global _JAX_READY
    if _JAX_READY:
        return
    if repo_path() not in sys.path:
        sys.path.insert(0, repo_path())
    from ad_afqmc import config

    config.setup_jax()
    import jax

    cache = os.environ.get("AFQMCSIM_JAX_CACHE")
    if cache:
        try:
            jax.config.update("jax_compilation_cache_dir", cache)
            jax.config.update("jax_persistent_cache_min_compile_time_secs", 0.0)
            jax.config.update("jax_persistent_cache_min_entry_size_bytes", 0)
        except Exception:  # noqa: BLE001 - cache is an optimisation only
            pass
    _JAX_READY = True


@contextlib.contextmanager
def in_scratch_dir(prefix="afqmcsim-run-"):
    """chdir into a fresh scratch directory (the drivers write cwd-relative files)."""
    old = os.getcwd()
    d = make_scratch(prefix)
    os.chdir(d)
    try:
        yield d
    finally:
        os.chdir(old)
        shutil.rmtree(d, ignore_errors=True)


@contextlib.contextmanager
def patched(obj, name, value):
    missing = object()
    old = getattr(obj, name, missing)
    setattr(obj, name, value)
    try:
        yield
    finally:
        if old is missing:
            delattr(obj, name)
        else:
            setattr(obj, name, old)
