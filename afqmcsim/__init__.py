"""afqmcsim - deterministic simulation with fault injection for ankit76/ad_afqmc.

Everything a run does is a pure function of (configuration dict, decision list);
both are derived from one integer (VERIF_SEED -> per-run seed) and both are what a
replay file stores.  See /verif/DESIGN.md.
"""
