"""Building blocks shared by the walk-level checks: random Hamiltonians and trials,
harness propagators (in-loop monitors + field-fault overlay carried as data in
prop_data), output capture."""
import contextlib
from functools import partial

import numpy as np

from . import env

N_FAULT_SLOTS = 8

_classes = {}
# set by a check before it lets a driver build prop_data: callable returning the fault
# list for the rank that currently holds the baton (never stored on the propagator
# instance, whose __dict__ is its jit hash)
FAULT_PROVIDER = [None]


def _jax():
    env.init_jax()
    import jax
    import jax.numpy as jnp

    return jax, jnp


# ------------------------------------------------------------------ systems


def rand_sym(rs, n, scale=1.0):
    a = rs.normal(size=(n, n))
    return scale * (a + a.T) / 2.0


def cond(m):
    """Condition number; 1 for an empty block (a spin channel without electrons)."""
    m = np.asarray(m)
    return 1.0 if m.size == 0 else float(np.linalg.cond(m))


def amax(a):
    """max |a|; 0 for an empty block."""
    a = np.asarray(a)
    return 0.0 if a.size == 0 else float(np.max(np.abs(a)))


def corner_override(m, k, salt, empty_ok=True, single_ok=True, rhf_unrestricted_ok=True):
    """Corners of the quantifier, drawn from a stream of their own so that the rest of the menu stays as it was:
    a spin channel without electrons (unrestricted walkers, plain entry points: jax's derivative rule of det
    fails on 0 x 0 matrices, so AD entry points are left out), a completely filled spin channel, one or two walkers."""
    import random as _random

    r = _random.Random(salt * 1000003 + k)
    u = r.random()
    if empty_ok and m.get("wt") == "unrestricted" and m.get("trial") in ("uhf", "noci", "ghf", None) and u < 0.14:
        m["nelec"] = r.choice([[2, 0], [1, 0], [3, 0]])
        m["corner"] = "empty_spin_channel"
    elif m.get("wt") == "unrestricted" and m.get("trial") in ("uhf", "noci", "ghf", None) and 0.14 <= u < 0.22 and m.get("norb", 4) <= 4:
        m["nelec"] = [m.get("norb", 4), r.choice([1, 2])]
        m["corner"] = "filled_spin_channel"
    elif single_ok and 0.22 <= u < 0.30:
        m["n_walkers"] = r.choice([1, 2])
        m["n_batch"] = 1
        m["corner"] = "one_or_two_walkers"
    elif rhf_unrestricted_ok and m.get("wt") == "unrestricted" and m.get("trial") in ("uhf", "noci") and 0.30 <= u < 0.42:
        # an RHF trial measured through its unrestricted-walker routines (trial "rhf" with walker_type "uhf" in the set-up)
        m["trial"] = "rhf"
        m["nelec"] = r.choice([[1, 1], [2, 2], [2, 2]])
        m["corner"] = "rhf_trial_unrestricted_walkers"
    elif rhf_unrestricted_ok and m.get("wt") == "restricted" and m.get("trial") == "uhf" and 0.30 <= u < 0.70:
        # restricted walkers with the trials that only define unrestricted routines (base-class column split)
        m["trial"] = r.choice(["noci", "ghf"])
        m["corner"] = "noci_or_ghf_trial_restricted_walkers"
    return m


def gen_hamiltonian(rs, norb, nchol, strength=0.5, spin_dep=False, h1_scale=1.0, antisym=0.0, h0_offset=0.0, core_level=0.0):
    """Random ab-initio-like Hamiltonian: symmetric h1 (per spin), symmetric Cholesky
    matrices (flattened as the library stores them)."""
    _, jnp = _jax()
    h1a = rand_sym(rs, norb, h1_scale) + np.diag(np.arange(norb) * 0.7)
    h1b = h1a + (rand_sym(rs, norb, 0.3 * h1_scale) if spin_dep else 0.0)
    chol = np.array([rand_sym(rs, norb, strength) for _ in range(nchol)])
    h0 = float(rs.uniform(-1.0, 1.0))
    if antisym:
        # a one-body input that is not exactly symmetric: the library symmetrises it (drawn last, so
        # that the symmetric part of the Hamiltonian does not depend on this option)
        k = rs.normal(size=(norb, norb))
        h1a = h1a + antisym * (k - k.T)
        h1b = h1b + antisym * (k - k.T)
    if core_level:
        # a deep (core-like) level on the first orbital; total energies of real molecules come with a large
        # constant (nuclear repulsion, frozen core) as well: both applied after all draws
        h1a = h1a + np.diag([core_level] + [0.0] * (norb - 1))
        h1b = h1b + np.diag([core_level] + [0.0] * (norb - 1))
    return {
        "h0": jnp.array(h0 + h0_offset),
        "h1": jnp.array(np.array([h1a, h1b])),
        "chol": jnp.array(chol.reshape(nchol, norb * norb)),
        "ene0": 0.0,
    }


def orbitals_from_h1(h1, nocc, rs=None, mix=0.0):
    """Lowest eigenvectors of h1, optionally rotated towards a random subspace (a poor
    trial for mix -> 1)."""
    w, v = np.linalg.eigh(np.asarray(h1))
    c = v[:, :nocc]
    if mix > 0.0 and rs is not None:
        r = rs.normal(size=c.shape)
        c = np.linalg.qr((1.0 - mix) * c + mix * r)[0]
    return c


def make_trial(kind, norb, nelec, ham_data, rs, mix=0.0, n_batch=1, ndets=2):
    """Returns (trial, wave_data).  Real coefficients throughout."""
    _, jnp = _jax()
    from ad_afqmc import wavefunctions

    h1 = np.asarray(ham_data["h1"])
    wave_data = {}
    if kind == "rhf":
        c = orbitals_from_h1((h1[0] + h1[1]) / 2.0, nelec[0], rs, mix)
        trial = wavefunctions.rhf(norb, nelec, n_batch=n_batch)
        wave_data["mo_coeff"] = jnp.array(c)
    elif kind == "uhf":
        ca = orbitals_from_h1(h1[0], nelec[0], rs, mix)
        cb = orbitals_from_h1(h1[1], nelec[1], rs, mix)
        trial = wavefunctions.uhf(norb, nelec, n_batch=n_batch)
        wave_data["mo_coeff"] = [jnp.array(ca), jnp.array(cb)]
    elif kind == "ghf":
        ca = orbitals_from_h1(h1[0], nelec[0], rs, mix)
        cb = orbitals_from_h1(h1[1], nelec[1], rs, mix)
        g = np.zeros((2 * norb, nelec[0] + nelec[1]))
        g[:norb, : nelec[0]] = ca
        g[norb:, nelec[0] :] = cb
        # mix the two spin channels with a random orthogonal rotation of the spin-orbital space
        k = rs.normal(size=(2 * norb, 2 * norb))
        import scipy.linalg as sla

        q = sla.expm(0.25 * (k - k.T))
        g = q @ g
        trial = wavefunctions.ghf(norb, nelec, n_batch=n_batch)
        wave_data["mo_coeff"] = jnp.array(g)
    elif kind == "noci":
        ups, dns = [], []
        for k in range(ndets):
            ups.append(orbitals_from_h1(h1[0], nelec[0], rs, mix if k == 0 else max(mix, 0.25)))
            dns.append(orbitals_from_h1(h1[1], nelec[1], rs, mix if k == 0 else max(mix, 0.25)))
        ci = np.array([1.0] + [0.3 * rs.uniform(0.5, 1.0) for _ in range(ndets - 1)])
        trial = wavefunctions.noci(norb, nelec, ndets, n_batch=n_batch)
        wave_data["ci_coeffs_dets"] = [jnp.array(ci), [jnp.array(np.array(ups)), jnp.array(np.array(dns))]]
    elif kind == "cisd":
        # hand-coded CISD trial on a closed-shell reference made of the first nocc basis orbitals (the library
        # works in the MO basis); spatial amplitudes with the pair symmetry c[i,a,j,b] = c[j,b,i,a]
        nocc, nv = nelec[0], norb - nelec[0]
        ci1 = 0.15 * rs.normal(size=(nocc, nv))
        c2 = 0.15 * rs.normal(size=(nocc, nv, nocc, nv))
        ci2 = 0.5 * (c2 + c2.transpose(2, 3, 0, 1))
        trial = wavefunctions.cisd(norb, nelec, n_batch=n_batch)
        wave_data["ci1"], wave_data["ci2"] = jnp.array(ci1), jnp.array(ci2)
        p = np.diag([1.0] * nocc + [0.0] * nv)
        wave_data["rdm1"] = jnp.array(np.array([p, p]))
        return trial, wave_data
    elif kind == "ucisd":
        # UCISD: alpha reference = first n_up basis orbitals, beta reference = first n_dn columns of an orthogonal
        # matrix B (beta MOs in the alpha-MO basis); same-spin doubles antisymmetric, all with pair symmetry
        import scipy.linalg as sla

        na, nb = nelec
        va, vb = norb - na, norb - nb
        k = rs.normal(size=(norb, norb))
        B = sla.expm(0.15 * (k - k.T))

        def same_spin(no, nv):
            c = 0.15 * rs.normal(size=(no, nv, no, nv))
            c = c - c.transpose(2, 1, 0, 3)  # i <-> j
            c = c - c.transpose(0, 3, 2, 1)  # a <-> b
            return 0.25 * c

        trial = wavefunctions.ucisd(norb, nelec, n_batch=n_batch)
        wave_data["ci1A"] = jnp.array(0.15 * rs.normal(size=(na, va)))
        wave_data["ci1B"] = jnp.array(0.15 * rs.normal(size=(nb, vb)))
        wave_data["ci2AA"] = jnp.array(same_spin(na, va))
        wave_data["ci2BB"] = jnp.array(same_spin(nb, vb))
        wave_data["ci2AB"] = jnp.array(0.15 * rs.normal(size=(na, va, nb, vb)))
        wave_data["mo_coeff"] = [jnp.eye(norb), jnp.array(B)]
        pa = np.diag([1.0] * na + [0.0] * va)
        pb = B[:, :nb] @ B[:, :nb].T
        wave_data["rdm1"] = jnp.array(np.array([pa, pb]))
        return trial, wave_data
    else:
        raise ValueError(kind)
    wave_data["rdm1"] = jnp.array(trial.get_rdm1(wave_data))
    return trial, wave_data


# ------------------------------------------------------------------ harness propagators

MON_KEYS = (
    "verif_incoh",        # max relative |cached - fresh| overlap seen at propagate entry (live walkers)
    "verif_nprop",        # number of propagate entries
    "verif_step",         # step counter used by the fault overlay
    "verif_bad_code",     # first C09 invariant that failed inside the compiled loop (0 = none)
    "verif_bad_step",     # step at which it failed
    "verif_bad_val",      # offending value
    "verif_n_killed",     # walkers whose weight went >0 -> 0 in a step
    "verif_n_nonfinite",  # steps in which some non-finite intermediate overlap appeared
    "verif_n_faults",     # fault slots that actually fired
    "verif_max_abs_field",
    "verif_n_onebody",    # CPMC: one-body half steps monitored
)

BAD_CODES = {
    1: "weight_not_finite",
    2: "weight_negative",
    3: "step_factor_outside_window",
    4: "weight_above_cap",
    5: "dead_walker_resurrected",
    6: "shift_not_finite_while_alive",
}


def fresh_monitor_entries(faults=None):
    """Float entries pre-seeded into prop_data (floats only: the driver builds AD tangents
    for every non-uint32 entry).  `faults` is a list of up to N_FAULT_SLOTS dicts
    {step, walker, comp (-1 = all), value, mode (0 set, 1 scale)}."""
    _, jnp = _jax()
    d = {k: jnp.array(0.0) for k in MON_KEYS}
    tab = np.full((N_FAULT_SLOTS, 5), -1.0)
    for i, f in enumerate((faults or [])[:N_FAULT_SLOTS]):
        tab[i] = [f["step"], f["walker"], f.get("comp", -1), f["value"], f.get("mode", 0)]
    d["verif_faults"] = jnp.array(tab)
    return d


def _overlay(jnp, fields, tab, step):
    """Apply the fault table to the fields of this step (pure data -> one compiled
    program serves every fault plan)."""
    nw, ng = fields.shape
    wi = jnp.arange(nw).reshape(-1, 1)
    gi = jnp.arange(ng).reshape(1, -1)
    fired = 0.0
    for k in range(N_FAULT_SLOTS):
        fstep, fw, fc, val, mode = tab[k, 0], tab[k, 1], tab[k, 2], tab[k, 3], tab[k, 4]
        hit = (fstep == step) & (wi == fw) & ((fc < 0) | (gi == fc))
        newv = jnp.where(mode > 0.5, fields * val, val)
        fields = jnp.where(hit, newv, fields)
        fired = fired + jnp.where(jnp.any(hit), 1.0, 0.0)
    return fields, fired


def harness_class(base_name):
    """Subclass of a repo propagator that (a) records cached-overlap coherence at every
    propagate entry, (b) overlays field faults, (c) evaluates the C09 step invariants -
    all inside the compiled loops, through prop_data["verif_*"] entries that exist only
    if the harness pre-seeded them.  Not re-decorated with @dataclass: inherits
    __eq__/__hash__ and stays a valid static jit argument."""
    if base_name in _classes:
        return _classes[base_name]
    jax, jnp = _jax()
    from jax import jit

    from ad_afqmc import propagation

    base = getattr(propagation, base_name)
    cpmc = "cpmc" in base_name

    class Harness(base):
        _verif_harness = True

        def init_prop_data(self, trial, wave_data, ham_data, init_walkers=None):
            pd = super().init_prop_data(trial, wave_data, ham_data, init_walkers)
            pd.update(fresh_monitor_entries(FAULT_PROVIDER[0]() if FAULT_PROVIDER[0] else None))
            return pd

        @partial(jit, static_argnums=(0, 1))
        def propagate(self, trial, ham_data, prop_data, fields, wave_data):
            pd = prop_data
            fresh = trial.calc_overlap(pd["walkers"], wave_data)
            cached = pd["overlaps"]
            live = (pd["weights"] > 0) & jnp.isfinite(jnp.abs(cached)) & (jnp.abs(cached) > 0)
            rel = jnp.where(live, jnp.abs(cached - fresh) / jnp.where(live, jnp.abs(cached), 1.0), 0.0)
            rel = jnp.where(jnp.isnan(rel), jnp.inf, rel)
            pd["verif_incoh"] = jnp.maximum(pd["verif_incoh"], jnp.max(rel))
            pd["verif_nprop"] = pd["verif_nprop"] + 1.0
            fields, fired = _overlay(jnp, fields, pd["verif_faults"], pd["verif_step"])
            pd["verif_n_faults"] = pd["verif_n_faults"] + fired
            pd["verif_max_abs_field"] = jnp.maximum(pd["verif_max_abs_field"], jnp.max(jnp.abs(fields)))
            w_old = pd["weights"]
            step = pd["verif_step"]
            pd = base.propagate(self, trial, ham_data, pd, fields, wave_data)
            w_new = pd["weights"]
            alive_before = w_old > 0
            ratio = jnp.where(alive_before, w_new / jnp.where(alive_before, w_old, 1.0), 0.0)
            lo, hi = (1.0e-3, 100.0) if not cpmc else (0.0, jnp.inf)
            in_window = (ratio == 0.0) | ((ratio >= lo * (1 - 1e-9)) & (ratio <= hi * (1 + 1e-9)))
            codes = jnp.array(
                [
                    jnp.any(~jnp.isfinite(w_new)),
                    jnp.any(w_new < 0),
                    jnp.any(alive_before & ~in_window & jnp.isfinite(w_new)),
                    jnp.any(w_new > 100.0 * (1 + 1e-12)),
                    jnp.any((~alive_before) & (w_new != 0)),
                    (jnp.sum(w_new) > 0) & ~jnp.isfinite(pd["pop_control_ene_shift"]),
                ]
            )
            first = jnp.argmax(codes) + 1.0
            anybad = jnp.any(codes)
            newbad = anybad & (pd["verif_bad_code"] == 0.0)
            pd["verif_bad_code"] = jnp.where(newbad, first, pd["verif_bad_code"])
            pd["verif_bad_step"] = jnp.where(newbad, step, pd["verif_bad_step"])
            worst = jnp.max(jnp.where(alive_before & ~in_window, jnp.abs(ratio), 0.0))
            pd["verif_bad_val"] = jnp.where(newbad, worst, pd["verif_bad_val"])
            pd["verif_n_killed"] = pd["verif_n_killed"] + jnp.sum(alive_before & (w_new == 0))
            pd["verif_n_nonfinite"] = pd["verif_n_nonfinite"] + jnp.where(
                jnp.any(~jnp.isfinite(jnp.abs(pd["overlaps"]))), 1.0, 0.0
            )
            pd["verif_step"] = step + 1.0
            return pd

    if hasattr(base, "propagate_one_body"):
        # CPMC: the one-body half step divides by the stored overlap as well (at its entry the
        # stored value is the product of the incremental ratios of the site updates)
        def propagate_one_body(self, trial, ham_data, prop_data, wave_data):
            pd = prop_data
            if "verif_incoh" in pd:
                fresh = trial.calc_overlap(pd["walkers"], wave_data)
                cached = pd["overlaps"]
                live = (pd["weights"] > 0) & jnp.isfinite(jnp.abs(cached)) & (jnp.abs(cached) > 0)
                rel = jnp.where(live, jnp.abs(cached - fresh) / jnp.where(live, jnp.abs(cached), 1.0), 0.0)
                rel = jnp.where(jnp.isnan(rel), jnp.inf, rel)
                pd["verif_incoh"] = jnp.maximum(pd["verif_incoh"], jnp.max(rel))
                pd["verif_n_onebody"] = pd["verif_n_onebody"] + 1.0
            return base.propagate_one_body(self, trial, ham_data, pd, wave_data)

        Harness.propagate_one_body = partial(jit, static_argnums=(0, 1))(propagate_one_body)

    Harness.__name__ = "Harness_" + base_name
    Harness.__qualname__ = Harness.__name__
    _classes[base_name] = Harness
    return Harness


def make_propagator(base_name, harness=True, **kw):
    from ad_afqmc import propagation

    cls = harness_class(base_name) if harness else getattr(propagation, base_name)
    return cls(**kw)


def read_monitors(prop_data):
    return {k: float(np.asarray(prop_data[k])) for k in MON_KEYS if k in prop_data}


def strip_monitors(prop_data):
    return {k: v for k, v in prop_data.items() if not k.startswith("verif_")}


# ------------------------------------------------------------------ seams: stdout, clock


class Capture:
    def __init__(self):
        self.lines = []

    def __call__(self, *a, **k):
        self.lines.append(" ".join(str(x) for x in a))


@contextlib.contextmanager
def quiet_repo(clock=None):
    """Route driver/stat_utils prints into a buffer and (optionally) the wall clock
    through a simulated clock (module attributes are the seam)."""
    from ad_afqmc import driver, stat_utils

    cap = Capture()
    with contextlib.ExitStack() as st:
        st.enter_context(env.patched(driver, "print", cap))
        st.enter_context(env.patched(stat_utils, "print", cap))
        if clock is not None:
            st.enter_context(env.patched(driver, "time", clock))
        yield cap


class SimClockModule:
    """Stands in for the `time` module inside ad_afqmc.driver."""

    def __init__(self, world=None):
        self.world = world
        self.t = 0.0

    def time(self):
        if self.world is not None:
            return self.world.now()
        self.t += 1.0e-3
        return 1.7e9 + self.t


# ------------------------------------------------------------------ systems from a cfg


class System:
    pass


def build_system(spec, harness=True):
    """spec: dict(norb, nelec, nchol, wt, trial, n_walkers, n_batch, dt, n_exp_terms,
    ham_seed, strength, mix, spin_dep).  Returns a System with ham, ham_data (with
    intermediates), trial, wave_data, prop (harness or plain) and plain (always plain)."""
    _, jnp = _jax()
    from ad_afqmc import hamiltonian

    s = System()
    rs = np.random.RandomState(spec["ham_seed"] % (2**32 - 1))
    norb, nelec = spec["norb"], tuple(spec["nelec"])
    s.spec = spec
    s.ham = hamiltonian.hamiltonian(norb)
    ham_data = gen_hamiltonian(rs, norb, spec["nchol"], spec.get("strength", 0.5), spec.get("spin_dep", False), antisym=spec.get("h1_antisym", 0.0),
                               h0_offset=spec.get("h0_offset", 0.0), core_level=spec.get("core_level", 0.0))
    s.trial, s.wave_data = make_trial(spec["trial"], norb, nelec, ham_data, rs, spec.get("mix", 0.0), spec.get("n_batch", 1))
    base = "propagator_restricted" if spec["wt"] == "restricted" else "propagator_unrestricted"
    kw = dict(dt=spec["dt"], n_walkers=spec["n_walkers"], n_exp_terms=spec.get("n_exp_terms", 6), n_batch=spec.get("n_batch", 1))
    s.prop = make_propagator(base, harness=harness, **kw)
    s.plain = make_propagator(base, harness=False, **kw)
    s.ham_data_raw = dict(ham_data)
    ham_data = s.ham.build_measurement_intermediates(dict(ham_data), s.trial, s.wave_data)
    s.ham_data = s.ham.build_propagation_intermediates(ham_data, s.prop, s.trial, s.wave_data)
    return s


def init_state(s, jax_seed, faults=None, harness=True):
    from jax import random

    FAULT_PROVIDER[0] = (lambda: faults) if faults else None
    try:
        p = s.prop if harness else s.plain
        pd = p.init_prop_data(s.trial, s.wave_data, dict(s.ham_data))
    finally:
        FAULT_PROVIDER[0] = None
    pd["key"] = random.PRNGKey(jax_seed)
    return pd


def copy_pd(pd):
    out = dict(pd)
    if isinstance(out.get("walkers"), list):
        out["walkers"] = list(out["walkers"])
    return out


ENTRY_POINTS = ("plain", "ad", "ad_nosr", "ad_norot", "ad_nosr_norot")


def call_entry(s, sampler, entry, ad_mode, pd, prop=None):
    """Call a sampler entry point exactly as driver.afqmc does (plain call, or jvp / vjp
    of the AD entry point with the driver's tangent construction).
    Returns (energy, observable_derivative_or_None, prop_data)."""
    import jax
    import jax.numpy as jnp
    from jax import dtypes

    prop = prop or s.prop
    ham, ham_data, trial, wave_data = s.ham, dict(s.ham_data), s.trial, s.wave_data
    pd = copy_pd(pd)
    if entry == "plain":
        e, pd = sampler.propagate_phaseless(ham, ham_data, prop, pd, trial, wave_data)
        return e, None, pd
    f = getattr(sampler, "propagate_phaseless_" + entry)

    def wrapper(x, y, z):
        return f(ham, dict(ham_data), x, y, prop, z, trial, wave_data)

    observable_op = jnp.array(ham_data["h1"])
    if ad_mode == "forward":
        tang = {}
        for k in pd:
            if isinstance(pd[k], list):
                tang[k] = [np.zeros_like(y) for y in pd[k]]
            elif pd[k].dtype == "uint32":
                tang[k] = np.zeros(pd[k].shape, dtype=dtypes.float0)
            else:
                tang[k] = np.zeros_like(pd[k])
        e, de, pd = jax.jvp(wrapper, (0.0, observable_op, pd), (1.0, 0.0 * observable_op, tang), has_aux=True)
        return e, de, pd
    if ad_mode == "reverse":
        rdm_op = 0.0 * jnp.array(ham_data["h1"])
        e, vjp_fun, pd = jax.vjp(wrapper, 1.0, rdm_op, pd, has_aux=True)
        rdm1 = vjp_fun(1.0)[1]
        return e, rdm1, pd
    # primal only
    e, pd = wrapper(0.0, observable_op, pd)
    return e, None, pd


def driver_glue(s, pd, block_energy, comm=None, prop=None):
    """What driver.afqmc does between two sampler calls (driver.py:128-132), through the
    public API: QR, global SR on the given communicator, running-estimate update."""
    from ad_afqmc import config

    prop = prop or s.prop
    comm = comm or config.not_a_comm()
    pd = copy_pd(pd)
    pd = prop.orthonormalize_walkers(pd)
    pd = prop.stochastic_reconfiguration_global(pd, comm)
    pd["e_estimate"] = 0.9 * pd["e_estimate"] + 0.1 * block_energy
    return pd


# ------------------------------------------------------------------ the driver on a SimWorld


def default_options(**kw):
    o = dict(
        seed=7, ad_mode=None, n_ene_blocks_eql=1, n_sr_blocks_eql=1, n_eql=1,
        orbital_rotation=True, do_sr=True, save_walkers=True,
    )
    o.update(kw)
    return o


def run_driver_world(s, sampler, options, R, decider, sched=None, log=None, faults_by_rank=None,
                     free_projection=False, use_not_a_comm=False, prop=None, init_walkers=None):
    """Run the real driver.afqmc (or fp_afqmc) as an SPMD program of R ranks on a
    SimWorld, inside a scratch directory.  Returns a dict with per-rank return values,
    the bytes of the files written, the prop_data pickles of every rank, world stats and
    the captured stdout."""
    import os
    import pickle

    from ad_afqmc import config, driver

    from .core import EventLog
    from .simmpi import make_world_mpi
    from .world import SimWorld

    prop = prop or s.prop
    log = log or EventLog()
    world = SimWorld(R, decider, log, sched=sched, max_decisions=20000)
    mpis = make_world_mpi(world)
    if use_not_a_comm:
        assert R == 1
        mpis = [config.not_MPI()]
    faults_by_rank = faults_by_rank or {}
    FAULT_PROVIDER[0] = lambda: faults_by_rank.get(max(world.current, 0))
    out = {}
    fn = driver.fp_afqmc if free_projection else driver.afqmc

    def target(rank, w):
        wave_data = dict(s.wave_data)
        ham_data = dict(s.ham_data_raw)
        return fn(ham_data, s.ham, prop, s.trial, wave_data, sampler, None, dict(options), mpis[rank], init_walkers)

    try:
        with in_scratch() as d, quiet_repo(clock=SimClockModule(world)) as cap:
            try:
                out["returns"] = world.run(target)
            finally:
                files = {}
                for name in sorted(os.listdir(d)):
                    with open(os.path.join(d, name), "rb") as f:
                        files[name] = f.read()
                out["files"] = files
            out["stdout"] = list(cap.lines)
    finally:
        FAULT_PROVIDER[0] = None
    pickles = {}
    for name, raw in out["files"].items():
        if name.startswith("prop_data_") and name.endswith(".bin"):
            rank = int(name[len("prop_data_") : -4])
            import io

            bio = io.BytesIO(raw)
            items = []
            while True:
                try:
                    items.append(pickle.load(bio))
                except EOFError:
                    break
            pickles[rank] = items
    out["pickles"] = pickles
    out["world"] = world
    out["log"] = log
    return out


def in_scratch():
    return env.in_scratch_dir()


def parse_samples(raw):
    rows = []
    for line in raw.decode().splitlines():
        if line.strip():
            rows.append([float(x) for x in line.split()])
    return np.array(rows)


# ------------------------------------------------------------------ lattice (CPMC) systems


def lattice_adjacency(kind, n):
    from ad_afqmc import lattices

    if kind == "chain":
        lat = lattices.one_dimensional_chain(n)
    elif kind == "grid2x2":
        lat = lattices.two_dimensional_grid(2, 2)
    else:
        raise ValueError(kind)
    adj = np.array(lat.create_adjacency_matrix(), dtype=float)
    return adj


def build_cpmc_system(spec, harness=False):
    """spec: dict(lattice, n_sites, nelec, u, u_1, dt, n_walkers, prop (repo class name),
    trial ('uhf_cpmc'|'ghf_cpmc'), chol ('hubbard'|'zero'), stagger, theta, ham_seed)."""
    _, jnp = _jax()
    from ad_afqmc import hamiltonian, wavefunctions

    s = System()
    s.spec = spec
    n = spec["n_sites"]
    nelec = tuple(spec["nelec"])
    rs = np.random.RandomState(spec["ham_seed"] % (2**32 - 1))
    adj = lattice_adjacency(spec["lattice"], n)
    h1 = -1.0 * adj
    u = float(spec["u"])
    if spec.get("chol", "hubbard") == "hubbard":
        chol = np.zeros((n, n, n))
        for i in range(n):
            chol[i, i, i] = np.sqrt(u)
    else:
        chol = np.zeros((n, n, n))
    # optional spin-dependent one-body term: a staggered pinning field +h on up, -h on down
    pin = spec.get("pinning", 0.0) * np.diag([(-1.0) ** i for i in range(n)])
    ham_data = {
        "h0": jnp.array(0.0),
        "h1": jnp.array(np.array([h1 + pin, h1 - pin])),
        "chol": jnp.array(chol.reshape(n, n * n)),
        "ene0": 0.0,
        "u": u,
        "u_1": float(spec.get("u_1", 0.0)),
        "hs_constant": float(np.sqrt(spec["dt"] * u)),
    }
    # symmetry-broken mean-field orbitals: staggered field of strength `stagger`
    stag = spec.get("stagger", 0.0) * np.array([(-1.0) ** i for i in range(n)])
    noise = rand_sym(rs, n, spec.get("noise", 0.0))
    ca = np.linalg.eigh(h1 + np.diag(stag) + noise)[1][:, : nelec[0]]
    cb = np.linalg.eigh(h1 - np.diag(stag) + noise)[1][:, : nelec[1]]
    s.ham = hamiltonian.hamiltonian(n)
    if spec["trial"] == "uhf_cpmc":
        s.trial = wavefunctions.uhf_cpmc(n, nelec)
        s.wave_data = {"mo_coeff": [jnp.array(ca), jnp.array(cb)]}
    else:
        th = spec.get("theta", 0.0)
        g = np.zeros((2 * n, nelec[0] + nelec[1]))
        g[:n, : nelec[0]] = np.cos(th) * ca
        g[n:, : nelec[0]] = np.sin(th) * ca
        g[:n, nelec[0] :] = -np.sin(th) * cb
        g[n:, nelec[0] :] = np.cos(th) * cb
        s.trial = wavefunctions.ghf_cpmc(n, nelec)
        s.wave_data = {"mo_coeff": jnp.array(g)}
    s.wave_data["rdm1"] = jnp.array(np.array([ca @ ca.T, cb @ cb.T]))
    kw = dict(dt=spec["dt"], n_walkers=spec["n_walkers"])
    if "nn" in spec["prop"]:
        pairs = sorted({(min(i, j), max(i, j)) for i in range(n) for j in range(n) if adj[i, j] != 0 and i != j})
        mode = spec.get("nn_bonds", "lattice")
        if mode == "open" and len(pairs) > 1:
            pairs = pairs[:-1]  # open boundary: fewer bonds than sites
        elif mode == "extended":
            pairs = sorted(set(pairs) | {(i, j) for i in range(n) for j in range(i + 2, n)})  # more bonds than sites
        kw["neighbors"] = tuple(pairs)
    s.prop = make_propagator(spec["prop"], harness=harness, **kw)
    s.plain = make_propagator(spec["prop"], harness=False, **kw)
    s.ham_data_raw = dict(ham_data)
    hd = s.ham.build_measurement_intermediates(dict(ham_data), s.trial, s.wave_data)
    s.ham_data = s.ham.build_propagation_intermediates(hd, s.prop, s.trial, s.wave_data)
    s.init_walkers = [jnp.array(np.array([ca + 0.0j] * spec["n_walkers"])), jnp.array(np.array([cb + 0.0j] * spec["n_walkers"]))]
    return s



def build_intermediates(s, prop, reuse=False):
    """ham_data with measurement + propagation intermediates for system s.  With reuse=True the
    dict has a history: it was first built for ANOTHER Hamiltonian (Cholesky vectors scaled by
    0.5, h1 shifted), then its integrals were overwritten and the intermediates rebuilt on the same
    dict - which must give exactly what a fresh dict gives."""
    import jax.numpy as jnp

    if not reuse:
        hd = s.ham.build_measurement_intermediates(dict(s.ham_data_raw), s.trial, s.wave_data)
        return s.ham.build_propagation_intermediates(hd, prop, s.trial, s.wave_data)
    other = dict(s.ham_data_raw)
    other["chol"] = 0.5 * jnp.array(s.ham_data_raw["chol"])
    other["h1"] = jnp.array(s.ham_data_raw["h1"]) + 0.1 * jnp.eye(s.ham_data_raw["h1"].shape[-1])[None]
    hd = s.ham.build_measurement_intermediates(other, s.trial, s.wave_data)
    hd = s.ham.build_propagation_intermediates(hd, prop, s.trial, s.wave_data)
    hd = dict(hd)  # same keys (all cached intermediates stay in place), integrals overwritten
    for k in ("h0", "h1", "chol", "ene0"):
        hd[k] = s.ham_data_raw[k]
    hd = s.ham.build_measurement_intermediates(hd, s.trial, s.wave_data)
    return s.ham.build_propagation_intermediates(hd, prop, s.trial, s.wave_data)
