"""SimComm / SimMPI: the part of the mpi4py surface that ad_afqmc uses, on a SimWorld.

Semantics are those the MPI standard gives an implementation, and nothing more:

* collectives on a communicator match in call order; a rank may be several collectives
  ahead of another rank;
* rooted gathers/reductions: a non-root rank may return as soon as its send buffer has
  been copied (eager) or only once the root has entered the call (rendezvous) - chosen
  per call and rank by the Decider; the root returns when all contributions exist;
* rooted broadcasts/scatters: non-roots block until the root has deposited; the root may
  return at once or only after everybody has entered;
* upper-case calls move raw bytes in rank order; `[buf, datatype]` specifications
  reinterpret the bytes with the named datatype (as mpi4py does); a size mismatch is an
  error (a real MPI would abort or corrupt memory);
* lower-case bcast moves a pickled copy (no aliasing between ranks, as between processes);
* significant receive buffers are pre-filled with NaN before the copy, so a partial
  write shows up.
"""
import pickle

import numpy as np

from .core import arr_hash


class SimMPIError(Exception):
    """What would be an MPI abort (mismatched collectives, truncation, bad buffer)."""


class _Inst:
    __slots__ = ("kind", "root", "data", "arrived", "left", "modes")

    def __init__(self, kind, root):
        self.kind = kind
        self.root = root
        self.data = {}
        self.arrived = set()
        self.left = 0
        self.modes = set()


class _CommState:
    def __init__(self, world):
        self.world = world
        self.next_idx = [0] * world.size
        self.inst = {}


def _spec(buf):
    """mpi4py buffer specification -> (ndarray view, numpy dtype or None)."""
    if isinstance(buf, (list, tuple)):
        arr, dt = buf[0], buf[-1]
        return arr, dt
    return buf, None


def _as_bytes(arr):
    return np.ascontiguousarray(np.asarray(arr)).tobytes()


def _write_bytes(target, raw, what):
    if not isinstance(target, np.ndarray):
        raise SimMPIError(f"{what}: receive buffer is {type(target).__name__}, not a writable ndarray")
    if not target.flags.writeable or not target.flags.c_contiguous:
        raise SimMPIError(f"{what}: receive buffer must be writable and contiguous")
    if target.nbytes != len(raw):
        raise SimMPIError(
            f"{what}: message of {len(raw)} bytes does not fit receive buffer of {target.nbytes} bytes"
        )
    if target.dtype.kind in "fc":
        target.fill(np.nan)
    flat = target.reshape(-1).view(np.uint8)
    flat[:] = np.frombuffer(raw, dtype=np.uint8)


class SimComm:
    def __init__(self, state, rank):
        self._st = state
        self._w = state.world
        self.rank = rank
        self.size = state.world.size

    # -- queries -------------------------------------------------------------
    def Get_size(self):
        return self.size

    def Get_rank(self):
        return self.rank

    # -- helpers -------------------------------------------------------------
    def _enter(self, kind, root):
        st, w, r = self._st, self._w, self.rank
        idx = st.next_idx[r]
        st.next_idx[r] += 1
        inst = st.inst.get(idx)
        if inst is None:
            inst = st.inst[idx] = _Inst(kind, root)
            w.stats["collectives"] += 1
        if inst.kind != kind or inst.root != root:
            raise SimMPIError(
                f"collective #{idx}: rank {r} called {kind}(root={root}) but another rank "
                f"called {inst.kind}(root={inst.root})"
            )
        inst.arrived.add(r)
        ahead = max(st.next_idx) - min(st.next_idx)
        if ahead > w.stats["max_rank_ahead"]:
            w.stats["max_rank_ahead"] = ahead
        return idx, inst

    def _leave(self, idx, inst):
        inst.left += 1
        if inst.left == self.size:
            if len(inst.modes) > 1:
                self._w.stats["eager_and_rendezvous_same_collective"] += 1
            del self._st.inst[idx]

    def _mode(self, inst):
        if self.size == 1:
            return "eager"
        m = "rendezvous" if self._w.decider.flip(self._w.sched["p_rendezvous"]) else "eager"
        self._w.stats[m] += 1
        inst.modes.add(m)
        return m

    # -- collectives ---------------------------------------------------------
    def Barrier(self):
        idx, inst = self._enter("Barrier", -1)
        self._w.log.add("Barrier.enter", self.rank, idx)
        self._w.yield_until(self.rank, lambda: len(inst.arrived) == self.size)
        self._w.log.add("Barrier.leave", self.rank, idx)
        self._leave(idx, inst)

    def Gather(self, sendbuf, recvbuf, root=0):
        idx, inst = self._enter("Gather", root)
        sarr, _ = _spec(sendbuf)
        raw = _as_bytes(sarr)
        inst.data[self.rank] = raw
        self._w.log.add("Gather.send", self.rank, f"{idx}:{arr_hash(np.frombuffer(raw, np.uint8))}")
        if self.rank == root:
            self._w.yield_until(self.rank, lambda: len(inst.data) == self.size)
            rarr, _ = _spec(recvbuf)
            allraw = b"".join(inst.data[r] for r in range(self.size))
            _write_bytes(rarr, allraw, f"Gather#{idx}")
            self._w.log.add("Gather.root", self.rank, f"{idx}:{arr_hash(rarr)}")
        else:
            if self._mode(inst) == "rendezvous":
                self._w.yield_until(self.rank, lambda: root in inst.arrived)
            else:
                self._w.yield_until(self.rank, None)
        self._leave(idx, inst)

    def Reduce(self, sendbuf, recvbuf, op=None, root=0):
        idx, inst = self._enter("Reduce", root)
        sarr, sdt = _spec(sendbuf)
        sarr = np.ascontiguousarray(np.asarray(sarr))
        raw = sarr.tobytes()
        dt = np.dtype(sdt) if sdt is not None else sarr.dtype
        if len(raw) % dt.itemsize:
            raise SimMPIError(f"Reduce#{idx}: {len(raw)} bytes is not a whole number of {dt}")
        inst.data[self.rank] = (raw, dt)
        self._w.log.add("Reduce.send", self.rank, f"{idx}:{arr_hash(np.frombuffer(raw, np.uint8))}")
        if op is not SUM:
            raise SimMPIError("only MPI.SUM is modelled")
        if self.rank == root:
            self._w.yield_until(self.rank, lambda: len(inst.data) == self.size)
            rarr, rdt = _spec(recvbuf)
            acc = None
            for r in range(self.size):
                raw_r, dt_r = inst.data[r]
                if dt_r != dt or len(raw_r) != len(raw):
                    raise SimMPIError(f"Reduce#{idx}: ranks disagree on datatype or count")
                v = np.frombuffer(raw_r, dtype=dt)
                acc = v.copy() if acc is None else acc + v
            rdt = np.dtype(rdt) if rdt is not None else (rarr.dtype if isinstance(rarr, np.ndarray) else dt)
            if rdt != dt:
                raise SimMPIError(f"Reduce#{idx}: send datatype {dt} != receive datatype {rdt}")
            _write_bytes(rarr, acc.astype(dt).tobytes(), f"Reduce#{idx}")
            self._w.log.add("Reduce.root", self.rank, f"{idx}:{arr_hash(rarr)}")
        else:
            if self._mode(inst) == "rendezvous":
                self._w.yield_until(self.rank, lambda: root in inst.arrived)
            else:
                self._w.yield_until(self.rank, None)
        self._leave(idx, inst)

    def Bcast(self, buf, root=0):
        idx, inst = self._enter("Bcast", root)
        arr, _ = _spec(buf)
        if self.rank == root:
            inst.data[root] = _as_bytes(arr)
            self._w.log.add("Bcast.root", self.rank, f"{idx}:{arr_hash(arr)}")
            if self._mode(inst) == "rendezvous":
                self._w.yield_until(self.rank, lambda: len(inst.arrived) == self.size)
            else:
                self._w.yield_until(self.rank, None)
        else:
            self._w.yield_until(self.rank, lambda: root in inst.data)
            _write_bytes(arr, inst.data[root], f"Bcast#{idx}")
            self._w.log.add("Bcast.recv", self.rank, f"{idx}:{arr_hash(arr)}")
        self._leave(idx, inst)

    def bcast(self, obj, root=0):
        idx, inst = self._enter("bcast", root)
        if self.rank == root:
            inst.data[root] = pickle.dumps(obj)
            self._w.log.add("bcast.root", self.rank, f"{idx}:{arr_hash(np.frombuffer(inst.data[root], np.uint8))}")
            if self._mode(inst) == "rendezvous":
                self._w.yield_until(self.rank, lambda: len(inst.arrived) == self.size)
            else:
                self._w.yield_until(self.rank, None)
            out = obj
        else:
            self._w.yield_until(self.rank, lambda: root in inst.data)
            out = pickle.loads(inst.data[root])
            self._w.log.add("bcast.recv", self.rank, idx)
        self._leave(idx, inst)
        return out

    def Scatter(self, sendbuf, recvbuf, root=0):
        idx, inst = self._enter("Scatter", root)
        rarr, _ = _spec(recvbuf)
        if self.rank == root:
            sarr, _ = _spec(sendbuf)
            if sarr is None:
                raise SimMPIError(f"Scatter#{idx}: root passed no send buffer")
            inst.data[root] = _as_bytes(sarr)
            self._w.log.add("Scatter.root", self.rank, f"{idx}:{arr_hash(sarr)}")
            if self._mode(inst) == "rendezvous":
                self._w.yield_until(self.rank, lambda: len(inst.arrived) == self.size)
            else:
                self._w.yield_until(self.rank, None)
        else:
            self._w.yield_until(self.rank, lambda: root in inst.data)
        allraw = inst.data[root]
        if not isinstance(rarr, np.ndarray):
            raise SimMPIError(f"Scatter#{idx}: receive buffer is not an ndarray")
        n = rarr.nbytes
        if n * self.size != len(allraw):
            raise SimMPIError(
                f"Scatter#{idx}: root sends {len(allraw)} bytes, {self.size} ranks x {n} bytes expected"
            )
        _write_bytes(rarr, allraw[self.rank * n : (self.rank + 1) * n], f"Scatter#{idx}")
        self._w.log.add("Scatter.recv", self.rank, f"{idx}:{arr_hash(rarr)}")
        self._leave(idx, inst)


class _Sum:
    def __repr__(self):
        return "SimMPI.SUM"


SUM = _Sum()


class SimMPI:
    """Stands in for the `MPI` module object the drivers receive as an argument."""

    FLOAT = np.dtype("float32")
    DOUBLE = np.dtype("float64")
    INT = np.dtype("int32")
    SUM = SUM

    def __init__(self, comm):
        self.COMM_WORLD = comm


def make_world_mpi(world):
    """One SimMPI facade per rank, all sharing one communicator state."""
    st = _CommState(world)
    return [SimMPI(SimComm(st, r)) for r in range(world.size)]
