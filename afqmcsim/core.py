"""Core value types: seeds, the Decider (the only source of nondeterminism of a run),
the event log and its digest, violations."""
import hashlib
import json
import random

import numpy as np


def derive_seed(base: int, check: str, index: int) -> int:
    h = hashlib.sha256(f"{int(base)}|{check}|{int(index)}".encode()).digest()
    return int.from_bytes(h[:7], "big")


class Violation(Exception):
    """A property violation found by an oracle.

    klass: short violation class (stable across shrinking), e.g. "sr.count_not_floor_ceil"
    site:  the call site / entry point in /repo the violation is attributed to
    detail: JSON-serialisable dict with the offending quantities
    """

    def __init__(self, klass, site, detail=None):
        super().__init__(f"{klass} @ {site}: {detail}")
        self.klass = klass
        self.site = site
        self.detail = detail or {}

    def to_json(self):
        return {"klass": self.klass, "site": self.site, "detail": jsonable(self.detail)}


class HarnessError(Exception):
    """The machinery itself failed (never reported as a violation, never as success)."""


def jsonable(x):
    if isinstance(x, dict):
        return {str(k): jsonable(v) for k, v in x.items()}
    if isinstance(x, (list, tuple)):
        return [jsonable(v) for v in x]
    if isinstance(x, (np.generic,)):
        x = x.item()
    if isinstance(x, complex):
        return {"re": float(x.real), "im": float(x.imag)}
    if isinstance(x, float):
        if x != x:
            return "nan"
        if x in (float("inf"), float("-inf")):
            return "inf" if x > 0 else "-inf"
        return x
    if isinstance(x, (int, str, bool)) or x is None:
        return x
    if hasattr(x, "shape"):
        return jsonable(np.asarray(x).tolist())
    return repr(x)


class Decider:
    """Every scheduling, fault and generation decision of one run goes through here.

    Generation mode: values come from random.Random(seed).
    Replay mode: values come from the recorded list; when it is exhausted the default
    (0 / False / 0.5) is used, which is what makes minimised decision lists replayable.
    The trace of values actually used is what a replay file stores.
    """

    def __init__(self, seed=None, recorded=None):
        self.seed = seed
        self.rng = random.Random(seed) if recorded is None else None
        self.recorded = list(recorded) if recorded is not None else None
        self.pos = 0
        self.trace = []

    def _next(self, default, gen):
        if self.recorded is not None:
            v = self.recorded[self.pos] if self.pos < len(self.recorded) else default
            self.pos += 1
        else:
            v = gen()
        self.trace.append(v)
        return v

    def choice(self, n: int) -> int:
        if n <= 1:
            # still recorded so that traces stay aligned when n varies under shrinking
            self._next(0, lambda: 0)
            return 0
        v = self._next(0, lambda: self.rng.randrange(n))
        try:
            return int(v) % n
        except (TypeError, ValueError):
            return 0

    def flip(self, p: float) -> bool:
        v = self._next(0, lambda: 1 if self.rng.random() < p else 0)
        return bool(v)

    def uniform(self) -> float:
        v = self._next(0.5, lambda: self.rng.random())
        try:
            return float(v)
        except (TypeError, ValueError):
            return 0.5


def arr_hash(*arrays) -> str:
    h = hashlib.sha256()
    for a in arrays:
        if isinstance(a, (list, tuple)):
            h.update(arr_hash(*a).encode())
            continue
        a = np.ascontiguousarray(np.asarray(a))
        h.update(str(a.dtype).encode())
        h.update(str(a.shape).encode())
        h.update(a.tobytes())
    return h.hexdigest()[:16]


class EventLog:
    """Append-only log stamped with a global sequence number (never wall time)."""

    def __init__(self, keep=400):
        self.seq = 0
        self.h = hashlib.sha256()
        self.keep = keep
        self.head = []
        self.n_by_kind = {}

    def add(self, kind, rank=-1, detail=""):
        line = f"{self.seq}|{kind}|{rank}|{detail}"
        self.h.update(line.encode())
        self.h.update(b"\n")
        if len(self.head) < self.keep:
            self.head.append(line)
        self.n_by_kind[kind] = self.n_by_kind.get(kind, 0) + 1
        self.seq += 1

    def digest(self) -> str:
        return self.h.hexdigest()[:24]


def canon(obj) -> str:
    return json.dumps(jsonable(obj), sort_keys=True, separators=(",", ":"))
