"""SimWorld: R ranks of an SPMD program as baton-passing threads inside one process.

Exactly one thread runs at any time.  A rank hands the baton back only inside a
SimComm call (collectives are the only points where the relative order of ranks is
observable: ranks share no memory).  The scheduler then asks the run's Decider which
*ready* rank runs next, so a decision list is an exactly repeatable execution.
"""
import threading

from .core import EventLog, HarnessError, Violation


class WorldAborted(BaseException):
    """Raised inside rank threads when the world is torn down."""


class Deadlock(Exception):
    pass


class SimWorld:
    def __init__(self, size, decider, log=None, sched=None, max_decisions=20000):
        self.size = size
        self.decider = decider
        self.log = log if log is not None else EventLog()
        self.sched = dict(policy="random", straggler=0, p_rendezvous=0.5, p_clock_jump=0.0)
        if sched:
            self.sched.update(sched)
        self.max_decisions = max_decisions
        self.current = -1
        self.n_decisions = 0
        self.stats = {
            "sched_decisions": 0,
            "eager": 0,
            "rendezvous": 0,
            "straggler_skips": 0,
            "sticky_runs": 0,
            "clock_jumps": 0,
            "max_rank_ahead": 0,
            "collectives": 0,
            "eager_and_rendezvous_same_collective": 0,
        }
        self._go = [threading.Event() for _ in range(size)]
        self._back = threading.Event()
        self._cond = [None] * size
        self._done = [False] * size
        self._exc = [None] * size
        self._result = [None] * size
        self._aborting = False
        self._threads = []
        self._clock = [0.0] * size
        self.sched_trace = []  # sequence of chosen ranks (for distinct-interleaving measure)

    # ---- called from rank threads ------------------------------------------------
    def yield_until(self, rank, cond=None):
        """Give the baton back; resume when the scheduler picks this rank again and
        cond() (if any) holds."""
        self._cond[rank] = cond
        self._back.set()
        self._go[rank].wait()
        self._go[rank].clear()
        if self._aborting:
            raise WorldAborted()
        self._cond[rank] = None

    def now(self):
        """Simulated wall clock for the rank that currently holds the baton."""
        r = self.current if self.current >= 0 else 0
        self._clock[r] += 1.0e-3
        if self.sched["p_clock_jump"] > 0 and self.decider.flip(self.sched["p_clock_jump"]):
            # a jump, forwards or backwards, of up to an hour
            self._clock[r] += (self.decider.uniform() - 0.5) * 7200.0
            self.stats["clock_jumps"] += 1
        return 1.7e9 + 37.0 * r + self._clock[r]

    # ---- scheduler ---------------------------------------------------------------
    def _pick(self, ready):
        pol = self.sched["policy"]
        n = len(ready)
        rng_pick = None
        if n > 1:
            if pol == "sticky" and self.current in ready:
                cur = ready.index(self.current)

                def rng_pick(rng, cur=cur, n=n):
                    return cur if rng.random() < 0.85 else rng.randrange(n)

            elif pol == "straggler" and self.sched["straggler"] in ready:
                s = ready.index(self.sched["straggler"])

                def rng_pick(rng, s=s, n=n):
                    if rng.random() < 0.9:
                        k = rng.randrange(n - 1)
                        return k if k < s else k + 1
                    return s

            elif pol == "reverse":

                def rng_pick(rng, n=n):
                    return n - 1 if rng.random() < 0.8 else rng.randrange(n)

        d = self.decider
        if rng_pick is None:
            k = d.choice(n)
        else:
            v = d._next(0, lambda: rng_pick(d.rng))
            k = int(v) % n
        r = ready[k]
        if pol == "sticky" and r == self.current:
            self.stats["sticky_runs"] += 1
        if pol == "straggler" and self.sched["straggler"] in ready and r != self.sched["straggler"]:
            self.stats["straggler_skips"] += 1
        return r

    def run(self, target, timeout_per_turn=600.0):
        """target(rank, world) is executed by every rank.  Returns list of results."""

        def body(rank):
            self._go[rank].wait()
            self._go[rank].clear()
            try:
                if self._aborting:
                    raise WorldAborted()
                self._result[rank] = target(rank, self)
            except WorldAborted:
                pass
            except BaseException as e:  # noqa: BLE001 - forwarded to the scheduler thread
                self._exc[rank] = e
            finally:
                self._done[rank] = True
                self._back.set()

        self._threads = [
            threading.Thread(target=body, args=(r,), name=f"simrank-{r}", daemon=True)
            for r in range(self.size)
        ]
        for t in self._threads:
            t.start()
        error = None
        try:
            while True:
                unfinished = [r for r in range(self.size) if not self._done[r]]
                if not unfinished:
                    break
                ready = [r for r in unfinished if self._cond[r] is None or self._cond[r]()]
                if not ready:
                    raise Deadlock(
                        "no rank can proceed; waiting ranks: %s" % unfinished
                    )
                if self.n_decisions >= self.max_decisions:
                    raise Deadlock("scheduler decision budget exhausted (livelock?)")
                r = self._pick(ready)
                self.n_decisions += 1
                self.stats["sched_decisions"] += 1
                self.sched_trace.append(r)
                self.current = r
                self._go[r].set()
                if not self._back.wait(timeout_per_turn):
                    raise HarnessError(f"rank {r} did not yield within {timeout_per_turn}s")
                self._back.clear()
                if self._exc[r] is not None:
                    error = self._exc[r]
                    break
        except BaseException as e:  # noqa: BLE001
            error = e
        finally:
            self._teardown()
        if error is not None:
            raise error
        return list(self._result)

    def _teardown(self):
        self._aborting = True
        for r in range(self.size):
            if not self._done[r]:
                self._go[r].set()
        for t in self._threads:
            t.join(timeout=30.0)
        self.current = -1
