"""Generic pieces of the delta-debugging minimiser (the loop itself is runner.shrink)."""


def decision_candidates(decisions, max_candidates=40):
    """Simpler decision lists: everything default, truncated tails, zeroed chunks.
    A default decision (0) means: lowest ready rank / no fault / eager."""
    dec = list(decisions)
    n = len(dec)
    out = 0
    if n == 0:
        return
    if any(dec):
        yield [0] * n
        out += 1
    for keep in (n // 2, (3 * n) // 4):
        if 0 < keep < n and any(dec[keep:]):
            yield dec[:keep]
            out += 1
    chunk = max(1, n // 2)
    while chunk >= 1 and out < max_candidates:
        for s in range(0, n, chunk):
            if any(dec[s : s + chunk]):
                yield dec[:s] + [0] * len(dec[s : s + chunk]) + dec[s + chunk :]
                out += 1
                if out >= max_candidates:
                    return
        if chunk == 1:
            break
        chunk = max(1, chunk // 2)


def drop_each(seq, max_candidates=30):
    """Lists with one element (or one half) removed."""
    seq = list(seq)
    n = len(seq)
    if n > 1:
        yield seq[: n // 2]
        yield seq[n // 2 :]
    for i in range(min(n, max_candidates)):
        yield seq[:i] + seq[i + 1 :]
