"""C09 - weights stay real, finite and non-negative; dead walkers stay dead.

Generated step/block histories for every propagator (restricted, unrestricted, CPMC
fast/slow, CPMC with neighbour interaction fast/slow, continuous CPMC) under hostile
parameters (time steps from 1e-4 to 2, strong interactions, poor trials) with injected
finite extreme field values; the real sampler entry points and complete driver.afqmc
runs on 1-3 simulated ranks with the field-fault overlay active inside the compiled
loops.  Invariants are evaluated after every operation (and, inside compiled loops, by
the harness propagator after every step)."""
import random

import numpy as np

from .. import lab
from ..core import EventLog, HarnessError, arr_hash
from ..simmpi import SimMPIError
from ..world import Deadlock

ID = "C09"
NAME = "weights_invariants"
TITLE = "Weights stay real, finite and non-negative; dead walkers stay dead"

MENU = {"quick": 64, "thorough": 256}
TIERS = {
    "quick": dict(runs=64 * 10, budget_s=300, recheck=2, shrink_s=60.0, run_timeout_s=900),
    "thorough": dict(runs=256 * 100, budget_s=1200, recheck=6, shrink_s=180.0, run_timeout_s=1800),
}
RULE = (
    "run i uses compiled-menu entry i mod M (propagator class, trial kind, dt in {1e-4,0.01,0.1,0.5,2}, walkers, kind: step machine / "
    "sampler blocks with in-loop monitor / driver on 1-3 simulated ranks) and draws interaction strength, trial quality, the operation "
    "history (20-80 operations from {step, tail-step 6-40 sigma, huge single component 1e2..1e300, QR, local SR, sampler block}) "
    "and rank schedules from sha256(seed|C09|i). Non-trivial = some walker was killed or some fault fired; distinct = distinct digest "
    "of the weight history."
)
ASSUMPTIONS = [
    "only finite field values are injected (the property says extreme values, not NaN/inf inputs); non-finite values arising inside a step from finite inputs are in scope",
    "start populations have finite non-zero overlaps (generator precondition, checked)",
    "documented window: phaseless step factor in {0} U [1e-3, 100], weight <= 100; CPMC: weight finite, >= 0, <= 100 (no per-step factor window is documented for CPMC)",
    "shift finiteness is demanded only while the total weight is > 0",
]
COMPONENTS = {
    "real": ["ad_afqmc.propagation: propagator_restricted, _unrestricted, _cpmc, _cpmc_slow, _cpmc_nn, _cpmc_nn_slow, _cpmc_continuous",
             "ad_afqmc.sampling.sampler.propagate_phaseless and AD entry points", "ad_afqmc.driver.afqmc", "ad_afqmc.wavefunctions rhf/uhf/noci/uhf_cpmc/ghf_cpmc", "jax / XLA CPU"],
    "stub": ["mpi4py.MPI -> SimComm/SimWorld", "wall clock", "stdout"],
}
REQUIRED_PROBES = {"quick": ["walker_killed", "fault_fired", "nonfinite_inside_step", "cpmc_runs", "driver_runs", "sr_after_kill", "rank_extinct_while_others_alive"],
                   "thorough": ["walker_killed", "fault_fired", "nonfinite_inside_step", "cpmc_runs", "driver_runs", "sr_after_kill", "all_but_one_dead", "rank_extinct_while_others_alive"]}

PH = ["propagator_restricted", "propagator_unrestricted"]
CPMC = ["propagator_cpmc", "propagator_cpmc_slow", "propagator_cpmc_nn", "propagator_cpmc_nn_slow", "propagator_cpmc_continuous"]
DTS = [1e-4, 0.01, 0.1, 0.5, 2.0]


def menu_entry(k):
    r = random.Random(90000 + k)
    kind = ["steps_ph", "steps_cpmc", "blocks", "steps_cpmc", "steps_ph", "driver", "blocks", "steps_cpmc"][k % 8]
    m = dict(kind=kind, dt=DTS[(k // 8) % len(DTS)], n_walkers=r.choice([4, 6, 8]))
    if kind in ("steps_ph", "blocks", "driver"):
        m["prop"] = r.choice(PH)
        if kind == "driver" and r.random() < 0.3:
            m["prop"] = "propagator_cpmc"
    else:
        m["prop"] = CPMC[(k // 8 + k) % len(CPMC)]
    if m["prop"] in PH:
        wt = "restricted" if m["prop"] == "propagator_restricted" else "unrestricted"
        tr = r.choice(["rhf", "rhf", "uhf"]) if wt == "restricted" else r.choice(["uhf", "noci"])
        ne = [2, 2] if tr == "rhf" else r.choice([[2, 1], [2, 2], [3, 1]])
        m.update(wt=wt, trial=tr, nelec=ne,
                 norb=4, nchol=r.choice([2, 3]), n_batch=1)
    else:
        m.update(lattice=r.choice(["chain", "chain", "grid2x2"]), trial=r.choice(["uhf_cpmc", "ghf_cpmc"]), nelec=r.choice([[2, 2], [2, 1], [1, 1]]), chol=r.choice(["hubbard", "hubbard", "zero"]))
        m["n_sites"] = 4 if m["lattice"] == "grid2x2" else r.choice([3, 4])
    m["n_prop_steps"] = r.choice([1, 2, 5])
    m["n_ene_blocks"] = r.choice([1, 2])
    if kind == "blocks":
        m["entry"] = r.choice(["plain", "plain", "ad_nosr_norot", "ad_norot", "ad_norot"])
        m["n_sr_blocks"] = r.choice([1, 2, 3])
        r91 = random.Random(9100 + k)
        if r91.random() < 0.35:
            # entry points without reconfiguration count a dead walker again in every later energy block, and divide by
            # n_sr_blocks x n_ene_blocks x n_walkers although they run n_ene_blocks blocks only
            m["entry"] = r91.choice(["ad_nosr_norot", "ad_nosr"])
            m["n_sr_blocks"] = r91.choice([1, 1, 2])
            m["n_ene_blocks"] = r91.choice([2, 4])
        elif r91.random() < 0.4:
            m["n_ene_blocks"] = 4
    if kind == "driver":
        m.update(R=r.choice([1, 2, 3]), n_blocks=r.choice([2, 3]), n_sr_blocks=r.choice([1, 2]), n_eql=1, n_ene_blocks_eql=1, n_sr_blocks_eql=r.choice([1, 2]),
                 ad_mode=None, orbital_rotation=True, do_sr=True)
    # an empty spin channel only with the plain entry point (jax's derivative rule of det fails on 0 x 0 blocks)
    return lab.corner_override(m, k, 9, empty_ok=not str(m.get("entry", "plain")).startswith("ad"))


def _gen_faults(rng, cfg, nsteps, nslots=lab.N_FAULT_SLOTS):
    out = []
    ncomp = cfg.get("nchol") or cfg.get("n_sites")
    for _ in range(rng.choice([0, 1, 2, 3, 4])):
        if rng.random() < 0.5:
            out.append(dict(step=rng.randrange(max(1, nsteps)), walker=rng.randrange(cfg["n_walkers"]), comp=-1, value=rng.choice([6.0, 10.0, 20.0, 40.0]), mode=1))
        else:
            out.append(dict(step=rng.randrange(max(1, nsteps)), walker=rng.randrange(cfg["n_walkers"]), comp=rng.randrange(ncomp),
                            value=rng.choice([1e2, -1e2, 1e6, 1e60, 1e100, -1e100, 1e300]), mode=0))
    return out[:nslots]


def gen_cfg(seed, index, tier):
    m = dict(menu_entry(index % MENU[tier]))
    rng = random.Random(seed)
    m["menu"] = index % MENU[tier]
    m["ham_seed"] = rng.randrange(1, 2**31 - 1)
    m["jax_seed"] = rng.randrange(1, 2**20)
    if m["prop"] in PH:
        m["strength"] = rng.choice([0.1, 0.5, 1.0, 5.0, 20.0])
        m["mix"] = rng.choice([0.0, 0.2, 0.5, 0.9])
        m["spin_dep"] = m["wt"] == "unrestricted" and rng.random() < 0.5 and m.get("trial") != "rhf"
    else:
        m["u"] = rng.choice([1.0, 4.0, 16.0, 64.0])
        m["u_1"] = rng.choice([0.0, 0.5, 2.0])
        m["stagger"] = rng.choice([0.0, 0.3, 1.0])
        m["noise"] = rng.choice([0.0, 0.3, 1.5])
        m["theta"] = rng.choice([0.0, 0.4, 0.785])
    if m["kind"].startswith("steps"):
        ops = []
        nw = m["n_walkers"]
        ncomp = m.get("nchol") or m.get("n_sites")
        for _ in range(rng.randint(20, 80)):
            o = rng.choice(["step"] * 6 + ["tail", "huge", "qr", "sr", "block", "block"])
            if o == "tail":
                ops.append(["tail", rng.randrange(nw), rng.choice([6.0, 10.0, 20.0, 40.0])])
            elif o == "huge":
                ops.append(["huge", rng.randrange(nw), rng.randrange(ncomp), rng.choice([1e2, -1e2, 1e6, 1e60, 1e100, -1e100, 1e300])])
            else:
                ops.append([o])
        m["ops"] = ops
    elif m["kind"] == "blocks":
        m["n_calls"] = rng.choice([2, 3, 4])
        per = m["n_prop_steps"] * m["n_ene_blocks"] * m["n_sr_blocks"]
        m["faults"] = _gen_faults(rng, m, per * m["n_calls"])
        if m["entry"].startswith("ad_nosr") and random.Random(seed + 91).random() < 0.6:
            # most of the population overflows in the first steps of the call: without reconfiguration they stay dead
            # through every later energy block
            rk = random.Random(seed + 92)
            hit = rk.sample(range(m["n_walkers"]), max(1, min(lab.N_FAULT_SLOTS, (3 * m["n_walkers"] + 3) // 4)))
            ncomp = m.get("nchol") or m.get("n_sites")
            m["faults"] = [dict(step=rk.randrange(2), walker=w, comp=rk.randrange(ncomp), value=1e100, mode=0) for w in hit]
    else:
        m["faults_by_rank"] = {str(r): _gen_faults(rng, m, 50 * m["n_sr_blocks_eql"] + 6, nslots=4) for r in range(m["R"])}
        # "a node loses its whole population": every walker of one rank receives an
        # overflowing field inside the first sampling block; the other ranks get no fault
        m["kill_rank"] = None
        if m["R"] >= 2 and rng.random() < 0.4:
            r = rng.randrange(m["R"])
            eql = 50 * m["n_sr_blocks_eql"] * m["n_ene_blocks_eql"] * m["n_eql"]
            per = m["n_prop_steps"] * m["n_ene_blocks"] * m["n_sr_blocks"]
            # either inside the first sampling block or somewhere in the equilibration phase
            step = eql + rng.randrange(per) if rng.random() < 0.5 else rng.randrange(eql)
            m["kill_phase"] = "sampling" if step >= eql else "equilibration"
            ncomp = m.get("nchol") or m.get("n_sites")
            m["kill_rank"] = r
            m["faults_by_rank"] = {str(q): [] for q in range(m["R"])}
            m["faults_by_rank"][str(r)] = [dict(step=step, walker=w, comp=rng.randrange(ncomp), value=1e100, mode=0) for w in range(m["n_walkers"])]
        m["sched"] = {"policy": rng.choice(["random", "sticky", "straggler", "reverse"]), "straggler": rng.randrange(3), "p_rendezvous": rng.choice([0.0, 0.5, 1.0]), "p_clock_jump": 0.0}
    return m


def group_of(cfg):
    return f"m{cfg['menu']:03d}"


def group_of_index(seed, index, tier):
    return f"m{index % MENU[tier]:03d}"


def build(cfg, harness):
    if cfg["prop"] in PH:
        spec = {k: cfg[k] for k in ("norb", "nelec", "nchol", "wt", "trial", "n_walkers", "n_batch", "dt", "ham_seed", "strength", "mix", "spin_dep")}
        spec["n_exp_terms"] = 6
        return lab.build_system(spec, harness=harness)
    spec = {k: cfg[k] for k in ("lattice", "n_sites", "nelec", "u", "u_1", "dt", "n_walkers", "prop", "trial", "chol", "stagger", "noise", "theta", "ham_seed")}
    return lab.build_cpmc_system(spec, harness=harness)


def _init(s, cfg, harness, faults=None):
    from jax import random as jr

    lab.FAULT_PROVIDER[0] = (lambda: faults) if faults else None
    try:
        p = s.prop if harness else s.plain
        pd = p.init_prop_data(s.trial, s.wave_data, dict(s.ham_data))
    finally:
        lab.FAULT_PROVIDER[0] = None
    pd["key"] = jr.PRNGKey(cfg["jax_seed"])
    return pd


class Inv:
    """Invariants evaluated on the host after every operation of a step machine."""

    def __init__(self, ctx, cfg, site):
        self.ctx, self.cfg, self.site = ctx, cfg, site

    def bad(self, klass, op, **d):
        cfg = self.cfg
        d["trigger"] = {"prop": cfg["prop"], "kind": cfg["kind"], "what": klass}
        d.update({"op": op, "menu": cfg["menu"], "dt": cfg["dt"]})
        self.ctx.violation(klass, self.site, d)

    def after(self, op, w_old, pd, phaseless_step=False, resurrect_ok=False):
        w = np.asarray(pd["weights"])
        if np.iscomplexobj(w):
            self.bad("weights.not_real", op, dtype=str(w.dtype))
            return
        if not np.all(np.isfinite(w)):
            self.bad("weights.not_finite", op, weights=w.tolist(), previous=w_old.tolist())
            return
        if np.any(w < 0):
            self.bad("weights.negative", op, weights=w.tolist())
            return
        if np.any(w > 100.0 * (1 + 1e-12)):
            self.bad("weights.above_cap", op, weights=w.tolist())
        if not resurrect_ok and np.any((w_old == 0) & (w != 0)):
            self.bad("weights.dead_walker_resurrected", op, weights=w.tolist(), previous=w_old.tolist())
        if phaseless_step:
            alive = w_old > 0
            ratio = np.where(alive, w / np.where(alive, w_old, 1.0), 0.0)
            ok = (ratio == 0) | ((ratio >= 1e-3 * (1 - 1e-9)) & (ratio <= 100.0 * (1 + 1e-9)))
            if not np.all(ok):
                self.bad("weights.step_factor_outside_window", op, factors=ratio.tolist())
        shift = float(np.asarray(pd["pop_control_ene_shift"]))
        if float(np.sum(w)) > 0 and not np.isfinite(shift):
            self.bad("weights.shift_not_finite_while_alive", op, shift=shift, weights=w.tolist(), e_estimate=float(np.asarray(pd["e_estimate"])))


def execute(cfg, ctx):
    if cfg["kind"].startswith("steps"):
        return _exec_steps(cfg, ctx)
    if cfg["kind"] == "blocks":
        return _exec_blocks(cfg, ctx)
    return _exec_driver(cfg, ctx)


def _start_ok(pd):
    ov = np.asarray(pd["overlaps"])
    return np.all(np.isfinite(np.abs(ov))) and np.all(np.abs(ov) > 1e-12)


def _exec_steps(cfg, ctx):
    import jax.numpy as jnp
    from jax import random as jr

    from ad_afqmc import sampling

    s = build(cfg, harness=False)
    prop = s.plain
    ph = cfg["prop"] in PH
    site = f"{cfg['prop']}.propagate"
    pd = _init(s, cfg, harness=False)
    if not _start_ok(pd):
        ctx.count("precondition_start_overlap")
        return {"digest": None, "nontrivial": False}
    inv = Inv(ctx, cfg, site)
    nw = cfg["n_walkers"]
    ncomp = cfg.get("nchol") or cfg.get("n_sites")
    smp = sampling.sampler(cfg["n_prop_steps"], cfg["n_ene_blocks"], 1, 1)
    key = jr.PRNGKey(cfg["jax_seed"] + 5)
    rec = []
    nsteps = killed = faults = 0
    for k, op in enumerate(cfg["ops"]):
        name = op[0]
        w_old = np.asarray(pd["weights"]).copy()
        if name in ("step", "tail", "huge"):
            key, sub = jr.split(key)
            f = np.array(jr.normal(sub, shape=(nw, ncomp)))
            if name == "tail":
                f[op[1], :] *= op[2]
                faults += 1
            elif name == "huge":
                f[op[1], op[2]] = op[3]
                faults += 1
            pd = prop.propagate(s.trial, s.ham_data, lab.copy_pd(pd), jnp.array(f), s.wave_data)
            nsteps += 1
            inv.after(f"{k}:{name}", w_old, pd, phaseless_step=ph)
            ov = np.asarray(pd["overlaps"])
            if not np.all(np.isfinite(np.abs(ov))):
                ctx.probe("nonfinite_inside_step", 1)
        elif name == "qr":
            pd = prop.orthonormalize_walkers(lab.copy_pd(pd))
            pd["overlaps"] = s.trial.calc_overlap(pd["walkers"], s.wave_data)
            if "greens" in pd:
                pd["greens"] = s.trial.calc_full_green_vmap(pd["walkers"], s.wave_data)
            inv.after(f"{k}:qr", w_old, pd)
        elif name == "sr":
            if float(np.sum(w_old)) <= 0:
                continue
            pd = prop.stochastic_reconfiguration_local(lab.copy_pd(pd))
            pd["overlaps"] = s.trial.calc_overlap(pd["walkers"], s.wave_data)
            if "greens" in pd:
                pd["greens"] = s.trial.calc_full_green_vmap(pd["walkers"], s.wave_data)
            inv.after(f"{k}:sr", w_old, pd, resurrect_ok=True)
            w = np.asarray(pd["weights"])
            if not (np.all(w > 0) and np.allclose(w, w[0], rtol=1e-12)):
                inv.bad("weights.not_equal_positive_after_reconfiguration", f"{k}:sr", weights=w.tolist(), previous=w_old.tolist())
            if np.any(w_old == 0):
                ctx.probe("sr_after_kill", 1)
        elif name == "block":
            if float(np.sum(w_old)) <= 0:
                continue
            # one real sampler call (n_prop_steps x n_ene_blocks steps, QR, estimator, shift mixing, local SR)
            e, pd = smp.propagate_phaseless(s.ham, dict(s.ham_data), prop, lab.copy_pd(pd), s.trial, s.wave_data)
            if "greens" in pd:
                pd["greens"] = s.trial.calc_full_green_vmap(pd["walkers"], s.wave_data)
            nsteps += cfg["n_prop_steps"] * cfg["n_ene_blocks"]
            inv.after(f"{k}:block", w_old, pd, resurrect_ok=True)
            nk = float(np.asarray(pd["n_killed_walkers"]))
            if not (0.0 <= nk <= 1.0):
                inv.bad("weights.killed_fraction_outside_unit_interval", f"{k}:block", n_killed_walkers=nk)
        w = np.asarray(pd["weights"])
        if np.all(np.isfinite(w)):
            killed += int(np.sum((w_old > 0) & (w == 0)))
            if np.sum(w > 0) == 1 and nw > 1:
                ctx.probe("all_but_one_dead", 1)
        rec.append(arr_hash(w))
    ctx.probe("walker_killed", killed)
    ctx.probe("fault_fired", faults)
    ctx.probe("cpmc_runs", 0 if ph else 1)
    ctx.count("operations", len(cfg["ops"]))
    ctx.count("steps", nsteps)
    ctx.count("walkers_killed", killed)
    ctx.count("field_faults_injected", faults)
    return {"digest": arr_hash(np.frombuffer("|".join(rec).encode(), np.uint8)), "nontrivial": killed > 0 or faults > 0,
            "state_keys": [f"{cfg['prop']}-{cfg['trial']}-dt{cfg['dt']}-k{int(killed > 0)}-f{int(faults > 0)}"],
            "sim_steps": nsteps, "sim_time": nsteps * cfg["dt"],
            "sample": {"cfg": cfg, "final_weights": np.asarray(pd["weights"]).tolist(), "walkers_killed": killed, "final_shift": float(np.asarray(pd["pop_control_ene_shift"]))}}


def _check_monitor(ctx, cfg, site, mon, where):
    code = int(round(mon["verif_bad_code"]))
    if code:
        name = lab.BAD_CODES.get(code, str(code))
        ctx.violation("weights." + name, site, {"trigger": {"prop": cfg["prop"], "kind": cfg["kind"], "what": "weights." + name}, "where": where, "step": mon["verif_bad_step"],
                                                 "value": mon["verif_bad_val"], "menu": cfg["menu"], "dt": cfg["dt"]})


def _exec_blocks(cfg, ctx):
    from ad_afqmc import sampling

    s = build(cfg, harness=True)
    smp = sampling.sampler(cfg["n_prop_steps"], cfg["n_ene_blocks"], cfg["n_sr_blocks"], 1)
    entry = cfg["entry"]
    mode = None if entry == "plain" else "forward"
    site = "sampler.propagate_phaseless" + ("" if entry == "plain" else "_" + entry)
    pd = _init(s, cfg, harness=True, faults=cfg["faults"])
    if not _start_ok(pd):
        ctx.count("precondition_start_overlap")
        return {"digest": None, "nontrivial": False}
    inv = Inv(ctx, cfg, site)
    rec = []
    for call in range(cfg["n_calls"]):
        w_old = np.asarray(pd["weights"]).copy()
        if float(np.sum(w_old)) <= 0:
            break
        e, _, pd = lab.call_entry(s, smp, entry, mode, pd)
        mon = lab.read_monitors(pd)
        _check_monitor(ctx, cfg, site, mon, f"call {call}")
        inv.after(f"call {call}", w_old, pd, resurrect_ok=True)
        nk = float(np.asarray(pd["n_killed_walkers"]))
        if not (0.0 <= nk <= 1.0):
            inv.bad("weights.killed_fraction_outside_unit_interval", f"call {call}", n_killed_walkers=nk)
        rec.append(arr_hash(np.asarray(pd["weights"])))
        if float(np.sum(np.asarray(pd["weights"]))) > 0 and np.all(np.isfinite(np.asarray(pd["weights"]))):
            pd = lab.driver_glue(s, pd, e if np.isfinite(float(np.asarray(e))) else pd["e_estimate"])
    mon = lab.read_monitors(pd)
    ctx.probe("walker_killed", mon["verif_n_killed"])
    ctx.probe("fault_fired", mon["verif_n_faults"])
    ctx.probe("nonfinite_inside_step", mon["verif_n_nonfinite"])
    ctx.count("steps", int(mon["verif_nprop"]))
    ctx.count("walkers_killed", int(mon["verif_n_killed"]))
    ctx.count("field_faults_injected", int(mon["verif_n_faults"]))
    return {"digest": arr_hash(np.frombuffer("|".join(rec).encode(), np.uint8)), "nontrivial": mon["verif_n_killed"] > 0 or mon["verif_n_faults"] > 0,
            "state_keys": [f"blocks-{entry}-{cfg['prop']}-dt{cfg['dt']}-k{int(mon['verif_n_killed'] > 0)}-f{int(mon['verif_n_faults'] > 0)}"],
            "sim_steps": int(mon["verif_nprop"]), "sim_time": mon["verif_nprop"] * cfg["dt"],
            "sample": {"cfg": cfg, "monitor": mon, "final_weights": np.asarray(pd["weights"]).tolist()}}


def _exec_driver(cfg, ctx):
    from ad_afqmc import sampling

    s = build(cfg, harness=True)
    smp = sampling.sampler(cfg["n_prop_steps"], cfg["n_ene_blocks"], cfg["n_sr_blocks"], cfg["n_blocks"])
    opts = lab.default_options(seed=cfg["jax_seed"], ad_mode=None, n_ene_blocks_eql=cfg["n_ene_blocks_eql"], n_sr_blocks_eql=cfg["n_sr_blocks_eql"], n_eql=cfg["n_eql"], save_walkers=True)
    site = "driver.afqmc"
    R = cfg["R"]
    fb = {int(k): v for k, v in cfg["faults_by_rank"].items()}
    try:
        out = lab.run_driver_world(s, smp, opts, R, ctx.decider, sched=cfg["sched"], log=EventLog(), faults_by_rank=fb)
    except ValueError as e:
        if "Initial overlaps are zero" in str(e):
            ctx.count("precondition_start_overlap")
            return {"digest": None, "nontrivial": False}
        raise
    except (Deadlock, SimMPIError) as e:
        ctx.violation("weights.driver_failed", site, {"trigger": {"prop": cfg["prop"], "kind": "driver", "what": "driver_failed"}, "error": str(e)})
        return {"digest": None, "nontrivial": False}
    inv = Inv(ctx, cfg, site)
    mons = []
    total_alive_prev = None
    for n in range(cfg["n_blocks"]):
        alive = 0.0
        for r in range(R):
            items = out["pickles"].get(r) or []
            if len(items) != cfg["n_blocks"]:
                raise HarnessError(f"rank {r}: {len(items)} pickles, expected {cfg['n_blocks']}")
            pd = items[n]
            w = np.asarray(pd["weights"])
            if np.iscomplexobj(w) or not np.all(np.isfinite(w)) or np.any(w < 0) or np.any(w > 100 * (1 + 1e-12)):
                inv.bad("weights.not_finite" if not np.all(np.isfinite(w)) else "weights.negative_or_above_cap", f"block {n} rank {r}", weights=w.tolist())
            alive += float(np.sum(w[np.isfinite(w)]))
        # the shift on every rank stays finite while any walker (on any rank) is alive
        for r in range(R):
            pd = out["pickles"][r][n]
            w = np.asarray(pd["weights"])
            shift = float(np.asarray(pd["pop_control_ene_shift"]))
            if float(np.sum(w)) > 0 and not np.isfinite(shift):
                inv.bad("weights.shift_not_finite_while_alive", f"block {n} rank {r}", shift=shift, weights=w.tolist(), e_estimate=float(np.asarray(pd["e_estimate"])),
                        total_weight_all_ranks_previous_block=total_alive_prev)
        # the running estimate that every rank's shift is reset to stays finite while any
        # walker in the world is alive (a rank that lost its population must not poison it)
        if (total_alive_prev is not None and total_alive_prev > 0) or (total_alive_prev is None and alive > 0):
            for r in range(R):
                ee = float(np.asarray(out["pickles"][r][n]["e_estimate"]))
                if not np.isfinite(ee):
                    inv.bad("weights.running_estimate_not_finite_while_walkers_alive", f"block {n} rank {r}", e_estimate=ee,
                            total_weight_all_ranks_previous_block=total_alive_prev, killed_rank=cfg.get("kill_rank"),
                            kill_phase=cfg.get("kill_phase"),
                            weights_this_block=[np.asarray(out["pickles"][q][n]["weights"]).tolist() for q in range(R)])
                    break
        if cfg.get("kill_rank") is not None and n == 0:
            wk = np.asarray(out["pickles"][cfg["kill_rank"]][0]["weights"])
            if float(np.sum(wk)) == 0.0 and alive > 0:
                ctx.probe("rank_extinct_while_others_alive", 1)
        total_alive_prev = alive
    for r in range(R):
        mon = lab.read_monitors(out["pickles"][r][-1])
        mons.append(mon)
        _check_monitor(ctx, cfg, site, mon, f"rank {r}")
    nk = sum(m["verif_n_killed"] for m in mons)
    nf = sum(m["verif_n_faults"] for m in mons)
    ctx.probe("driver_runs", 1)
    ctx.probe("walker_killed", nk)
    ctx.probe("fault_fired", nf)
    ctx.probe("nonfinite_inside_step", sum(m["verif_n_nonfinite"] for m in mons))
    ctx.probe("cpmc_runs", 0 if cfg["prop"] in PH else 1)
    ctx.count("steps", int(sum(m["verif_nprop"] for m in mons)))
    ctx.count("walkers_killed", int(nk))
    ctx.count("field_faults_injected", int(nf))
    w = out["world"]
    for k in ("eager", "rendezvous", "collectives", "sched_decisions"):
        ctx.count(k, w.stats[k])
    raw = out["files"].get("samples_raw.dat", b"")
    return {"digest": arr_hash(np.frombuffer(raw, np.uint8)), "nontrivial": nk > 0 or nf > 0,
            "sched_key": arr_hash(np.array(w.sched_trace, dtype=np.int64)),
            "state_keys": [f"driver-R{R}-{cfg['prop']}-dt{cfg['dt']}-k{int(nk > 0)}-f{int(nf > 0)}"],
            "sim_steps": int(sum(m["verif_nprop"] for m in mons)), "sim_time": sum(m["verif_nprop"] for m in mons) * cfg["dt"],
            "sample": {"cfg": cfg, "monitor_rank0": mons[0], "samples_raw_head": raw.decode().splitlines()[:3]}}


def shrink_candidates(cfg, decisions):
    from ..shrink import decision_candidates, drop_each

    if cfg["kind"].startswith("steps"):
        ops = cfg["ops"]
        n = len(ops)
        for keep in (n // 2, (3 * n) // 4, n - 1):
            if 0 < keep < n:
                yield dict(cfg, ops=ops[:keep]), decisions
        for cand in drop_each(ops, max_candidates=60):
            if cand:
                yield dict(cfg, ops=cand), decisions
    if cfg.get("faults"):
        for f in drop_each(cfg["faults"]):
            yield dict(cfg, faults=f), decisions
    if cfg.get("n_calls", 1) > 1:
        yield dict(cfg, n_calls=cfg["n_calls"] - 1), decisions
    if cfg["kind"] == "driver":
        for r, fl in cfg["faults_by_rank"].items():
            if fl:
                yield dict(cfg, faults_by_rank=dict(cfg["faults_by_rank"], **{r: []})), decisions
        for d in decision_candidates(decisions):
            yield cfg, d
