"""C04 - the phaseless step is an exact importance-sampling reweighting of exp(-dt H).

Decided as refinement of every step the real code takes against a reference step model
whose Gauss-Hermite field average is shown, in the same run, to equal
exp(-dt (H - E_shift)) + O(dt^2) (residual ratios on the dt ladder):

  history  generated histories (step with Gaussian / tail / huge fields, QR, local SR,
           scripted batch of quadrature nodes) driven through the real `propagate`;
           after every step each walker's new matrix, new cached overlap and applied
           weight factor are compared with the model; the code's own intermediates
           (mean-field shifts, constant, half-step one-body propagator) with the model's;
  ladder   the field average itself, evaluated on the CODE's outputs: for every node the
           importance function is rebuilt from the code's force bias, constants, new
           walker and new overlap, tied to the weight the code applied, and averaged;
           the residual against expm(-dt(H-E)) must shrink >= 3x per halving of dt.
"""
import math
import random

import numpy as np

from .. import lab
from ..core import arr_hash
from ..models import fock, phaseless

ID = "C04"
NAME = "phaseless_step"
TITLE = "Phaseless step is an exact importance-sampling reweighting of exp(-dt H)"

MENU = {"quick": 48, "thorough": 192}
TIERS = {
    "quick": dict(runs=48 * 12, budget_s=300, recheck=2, shrink_s=60.0, run_timeout_s=900),
    "thorough": dict(runs=192 * 150, budget_s=1200, recheck=6, shrink_s=180.0, run_timeout_s=1800),
}
LADDER = [0.02, 0.01, 0.005, 0.0025]
STEP_DTS = [0.04, 0.02, 0.01, 0.005]
RULE = (
    "run i uses compiled-menu entry i mod M (walker type, trial kind rhf/uhf/ghf/noci/cisd/ucisd, electron counts incl. an empty or a filled spin "
    "channel, 1-3 Cholesky matrices, dt from the ladder, n_exp_terms 4/6, 1-6 walkers, batches, kind history/ladder/sampler) and draws "
    "Hamiltonian (spin-dependent h1 for unrestricted, large energy constant, core-like level), "
    "mean-field rdm1 (trial's own or arbitrary, real or complex Hermitian), complex non-orthonormal start walkers, JAX seed and the operation history from "
    "sha256(seed|C04|i). Non-trivial = at least 3 compared steps with a weight factor different from 0 and 1; distinct = distinct "
    "digest of the compared quantities."
)
ASSUMPTIONS = [
    "the reference step model is validated in every run against expm(-dt(H - E_shift)) by tensor Gauss-Hermite quadrature (order 5-6) on the dt ladder (ratio >= 3); NumPy/SciPy expm and the Fock engine are trusted",
    "pointwise comparison tolerance 1e-9 relative; comparisons whose outcome depends on a threshold (1e-3, 100, cos theta = 0, product 100) are skipped when the model's value lies within 1e-7 of it",
    "rhf/uhf trials (whose routines conjugate the coefficients consistently) also with a complex phase convention of their orbitals - the same state; ghf and noci trials with real coefficients only: those classes mix mo_coeff.T (ghf overlap and Green's function, noci Green's function) with mo_coeff.T.conj() (ghf half-rotated integrals, noci overlap), so complex coefficients are not a usable input of theirs as the library stands",
    "the step model subtracts and compensates the mean-field values tr(L rdm1) analytically, so it is exact to O(dt^2) for complex values as well; generated 'arbitrary' rdm1 are Hermitian, the trial's own rdm1 is whatever the library computes",
    "start walkers have |overlap| bounded below (generator precondition)",
    "the hand-coded CISD/UCISD trials are given only as routines: their state is the bra their own overlap routine defines, fitted on random walkers as a bilinear form in the alpha and beta minors and verified on a second sample (residual <= 1e-9); force bias, local energy and the step are then compared with that state like for any other trial; CISD/UCISD block energies at 2e-6 (the library contracts one term in single precision on purpose)",
]
COMPONENTS = {
    "real": ["ad_afqmc.propagation.propagator_restricted/unrestricted: propagate, _apply_trotprop(_det), _build_propagation_intermediates, QR, local SR",
             "ad_afqmc.wavefunctions rhf/uhf/ghf/noci/cisd/ucisd: calc_overlap, calc_force_bias, calc_energy (sampler kind)", "ad_afqmc.sampling.sampler.propagate_phaseless", "jax / XLA CPU"],
    "model": ["afqmcsim.models.fock (second quantisation)", "afqmcsim.models.phaseless.StepModel"],
    "stub": [],
}
REQUIRED_PROBES = {"quick": ["sampler_runs", "sampler_sr_changed_population", "steps_compared", "nodes_batches", "ladder_runs", "ladder_asymptotic", "model_validated", "walker_killed_by_phase", "fault_steps"],
                   "thorough": ["sampler_runs", "sampler_sr_changed_population", "steps_compared", "nodes_batches", "ladder_runs", "ladder_asymptotic", "model_validated", "walker_killed_by_phase", "walker_killed_by_window", "fault_steps", "skipped_at_threshold"]}


def menu_entry(k):
    r = random.Random(40000 + k)
    wt = r.choice(["restricted", "unrestricted", "unrestricted"])
    if wt == "restricted":
        trial, nelec = r.choice(["rhf", "rhf", "uhf"]), r.choice([[2, 2], [1, 1]])
    else:
        trial, nelec = r.choice(["uhf", "ghf", "noci"]), r.choice([[2, 1], [2, 2], [1, 1], [3, 1]])
    norb = r.choice([3, 4, 4, 4, 5])
    if norb == 3:
        nelec = r.choice([[1, 1], [2, 2]]) if wt == "restricted" else r.choice([[2, 1], [1, 1], [2, 2]])
    m = dict(wt=wt, trial=trial, nelec=nelec, norb=norb, nchol=r.choice([1, 2, 3]), dt=STEP_DTS[k % 4], n_exp_terms=r.choice([4, 6]),
                n_walkers=r.choice([4, 6]), n_batch=r.choice([1, 2]), kind="ladder" if k % 6 == 5 else ("sampler" if k % 6 == 2 else "history"),
                n_prop_steps=r.choice([1, 2, 3]), n_ene_blocks=r.choice([1, 2]), n_sr_blocks=r.choice([2, 3]))
    if wt == "restricted" and trial == "uhf" and random.Random(4100 + k).random() < 0.6:
        # restricted walkers with an open-shell UHF trial (documented layout: n_up columns, the down determinant uses the first n_dn)
        m["nelec"] = [2, 1] if norb == 3 else random.Random(4101 + k).choice([[2, 1], [3, 1]])
    lab.corner_override(m, k, 4)
    # hand-coded CISD / UCISD trials (the most used production trials): own stream again
    r2 = random.Random(4000003 + k)
    if m.get("corner") is None and r2.random() < (0.6 if m["kind"] == "sampler" else 0.2):
        if m["wt"] == "restricted" and m["trial"] == "rhf":
            m["trial"], m["corner"] = "cisd", "cisd_trial"
        elif m["wt"] == "unrestricted" and m["trial"] in ("uhf", "noci") and min(m["nelec"]) >= 1:
            m["trial"], m["corner"] = "ucisd", "ucisd_trial"
    return m


def gen_cfg(seed, index, tier):
    m = dict(menu_entry(index % MENU[tier]))
    rng = random.Random(seed)
    m["menu"] = index % MENU[tier]
    m["ham_seed"] = rng.randrange(1, 2**31 - 1)
    m["strength"] = rng.choice([0.2, 0.4, 0.6])
    m["mix"] = rng.choice([0.0, 0.1, 0.3])
    m["spin_dep"] = m["wt"] == "unrestricted" and rng.random() < 0.6 and m.get("trial") != "rhf"
    m["rdm1_kind"] = rng.choice(["own", "arbitrary"])
    m["rdm1_complex"] = m["rdm1_kind"] == "arbitrary" and random.Random(seed + 31).random() < 0.5
    # total energies of real molecules: a large constant (nuclear repulsion / frozen core, dt |E| of order 1-10) and a
    # deep core-like one-body level (dt |h1| of order 1); not in the ladder kind, whose dt range is chosen for
    # asymptotic behaviour of an order-1 Hamiltonian
    # complex phase convention of the trial's orbital coefficients (same state)
    m["trial_phase"] = random.Random(seed + 47).choice([0.0, 0.0, 0.7, -1.9]) if m["trial"] in ("rhf", "uhf") else 0.0
    r41 = random.Random(seed + 41)
    m["h0_offset"] = r41.choice([0.0, 0.0, 0.0, -480.0, 150.0]) if m["kind"] != "ladder" else 0.0
    m["core_level"] = r41.choice([0.0, 0.0, 0.0, -30.0]) if m["kind"] != "ladder" else 0.0
    m["h1_antisym"] = rng.choice([0.0, 0.0, 0.0, 0.05])
    if m["trial"] in ("cisd", "ucisd"):
        m["h1_antisym"] = 0.0  # only the mean-field trials symmetrise a non-symmetric one-body input; the property quantifies over symmetric h1
    m["reuse_ham_data"] = rng.random() < 0.3  # intermediates rebuilt on a dict that was built for another Hamiltonian before
    m["jax_seed"] = rng.randrange(1, 2**20)
    m["walker_noise"] = rng.choice([0.05, 0.2, 0.5])
    # the free-projection reference energy is a legal entry of ham_data; a phaseless step must not depend on it
    m["ene0"] = rng.choice([0.0, 0.0, 0.9, -1.3])
    nw = m["n_walkers"]
    if m["kind"] == "history":
        ops = []
        for _ in range(rng.randint(5, 30)):
            o = rng.choice(["step"] * 6 + ["tail", "huge", "qr", "sr", "nodes"])
            if o == "tail":
                ops.append(["tail", rng.randrange(nw), rng.choice([4.0, 6.0, 10.0])])
            elif o == "huge":
                ops.append(["huge", rng.randrange(nw), rng.randrange(m["nchol"]), rng.choice([30.0, 1e3, 1e8, 1e100])])
            elif o == "nodes":
                ops.append(["nodes", rng.randrange(nw)])
            else:
                ops.append([o])
        m["ops"] = ops
    elif m["kind"] == "ladder":
        m["e_shift_offset"] = rng.choice([0.0, 0.3, -0.5])
    else:
        m["weight_spread"] = rng.choice([0.0, 1.0, 2.5])
    return m


def group_of(cfg):
    return f"m{cfg['menu']:03d}"


def group_of_index(seed, index, tier):
    return f"m{index % MENU[tier]:03d}"


def build(cfg, dt=None):
    import jax.numpy as jnp

    spec = {k: cfg[k] for k in ("norb", "nelec", "nchol", "wt", "trial", "n_walkers", "n_batch", "n_exp_terms", "ham_seed", "strength", "mix", "spin_dep")}
    spec["dt"] = cfg["dt"] if dt is None else dt
    spec["h1_antisym"] = cfg.get("h1_antisym", 0.0)
    spec["h0_offset"] = cfg.get("h0_offset", 0.0)
    spec["core_level"] = cfg.get("core_level", 0.0)
    s = lab.build_system(spec, harness=False)
    rs = np.random.RandomState((cfg["ham_seed"] + 77) % (2**32 - 1))
    s.ham_data_raw = dict(s.ham_data_raw)
    s.ham_data_raw["ene0"] = cfg.get("ene0", 0.0)
    if cfg.get("trial_phase") and cfg["trial"] in ("rhf", "uhf"):
        # the same state written with another (complex) phase convention of its orbital coefficients: nothing physical
        # may change; the trial's own rdm1 is recomputed by the library from the new coefficients
        ph = np.exp(1j * cfg["trial_phase"])
        s.wave_data = dict(s.wave_data)
        if cfg["trial"] == "rhf":
            s.wave_data["mo_coeff"] = jnp.array(np.asarray(s.wave_data["mo_coeff"]) * ph)
        else:
            s.wave_data["mo_coeff"] = [jnp.array(np.asarray(c) * ph) for c in s.wave_data["mo_coeff"]]
        s.wave_data.pop("rdm1")
        s.wave_data["rdm1"] = jnp.array(s.trial.get_rdm1(s.wave_data))
    s.own_rdm1 = np.asarray(s.wave_data["rdm1"])
    if cfg["rdm1_kind"] == "arbitrary":
        r0 = np.asarray(s.wave_data["rdm1"])
        s.wave_data = dict(s.wave_data)
        r1 = r0 + np.array([lab.rand_sym(rs, cfg["norb"], 0.3), lab.rand_sym(rs, cfg["norb"], 0.3)])
        if cfg.get("rdm1_complex"):
            # Hermitian with an imaginary (antisymmetric) part, as the density matrix of complex orbitals is
            k_ = rs.normal(size=(2, cfg["norb"], cfg["norb"])) * 0.3
            r1 = r1 + 1j * (k_ - np.transpose(k_, (0, 2, 1)))
        s.wave_data["rdm1"] = jnp.array(r1)
    s.ham_data = lab.build_intermediates(s, s.plain, reuse=cfg.get("reuse_ham_data", False))
    return s, rs


def make_model(cfg, s, dt=None):
    import jax.numpy as jnp

    hd = s.ham_data_raw
    sec = fock.Sector(cfg["norb"], cfg["nelec"])
    if cfg["trial"] == "cisd":
        # hand-coded CI-type trials are given only as routines: the state is the bra their overlap routine defines
        psi = fock.extract_bra(sec, lambda w: s.trial._calc_overlap_restricted(jnp.array(w), s.wave_data), restricted=True, seed=cfg["ham_seed"] % (2**31))
    elif cfg["trial"] == "ucisd":
        psi = fock.extract_bra(sec, lambda u, d: s.trial._calc_overlap(jnp.array(u), jnp.array(d), s.wave_data), restricted=False, seed=cfg["ham_seed"] % (2**31))
    else:
        psi = fock.trial_state(sec, cfg["trial"], s.wave_data)
    return phaseless.StepModel(norb=cfg["norb"], nelec=cfg["nelec"], h0=float(hd["h0"]), h1=np.asarray(hd["h1"]), chol=np.asarray(hd["chol"]),
                               rdm1=np.asarray(s.wave_data["rdm1"]), dt=cfg["dt"] if dt is None else dt, n_exp_terms=cfg["n_exp_terms"], psi=psi,
                               restricted=(cfg["wt"] == "restricted"))


def start_walkers(cfg, s, rs):
    """Complex, non-orthonormal walkers near the trial's occupied space."""
    import jax.numpy as jnp

    nw, norb = cfg["n_walkers"], cfg["norb"]
    r = np.asarray(s.wave_data["rdm1"])
    if cfg["trial"] in ("cisd", "ucisd"):
        own = s.own_rdm1  # these trials define no rdm1 of their own: the reference determinant's, as the set-up supplies it
    else:
        own = np.asarray(s.trial.get_rdm1({k: v for k, v in s.wave_data.items() if k != "rdm1"}))
    base_up = np.linalg.eigh(own[0])[1][:, ::-1][:, : cfg["nelec"][0]]
    base_dn = np.linalg.eigh(own[1])[1][:, ::-1][:, : cfg["nelec"][1]]
    eps = cfg["walker_noise"]

    def noisy(b):
        return b[None] + eps * (rs.normal(size=(nw,) + b.shape) + 1j * rs.normal(size=(nw,) + b.shape))

    if cfg["wt"] == "restricted":
        return jnp.array(noisy(base_up))
    return [jnp.array(noisy(base_up)), jnp.array(noisy(base_dn))]


def split(cfg, pd):
    if cfg["wt"] == "restricted":
        w = np.asarray(pd["walkers"])
        nu, nd = cfg["nelec"]
        return w[:, :, :nu], w[:, :, :nd]
    return np.asarray(pd["walkers"][0]), np.asarray(pd["walkers"][1])


def _bad(ctx, klass, site, cfg, **d):
    d["trigger"] = {"wt": cfg["wt"], "trial": cfg["trial"]}
    d["menu"] = cfg["menu"]
    ctx.violation(klass, site, d)


def _rel(a, b):
    a, b = np.asarray(a), np.asarray(b)
    den = max(float(np.max(np.abs(b))) if b.size else 0.0, 1e-300)
    return float(np.max(np.abs(a - b))) / den if a.size else 0.0


def check_intermediates(ctx, cfg, s, m):
    site = f"{type(s.plain).__name__}._build_propagation_intermediates"
    hd = s.ham_data
    if _rel(np.asarray(hd["mf_shifts"]), 1j * m.l) > 1e-10 and np.max(np.abs(m.l)) > 1e-12:
        _bad(ctx, "phaseless.mean_field_shift_wrong", site, cfg, code=str(np.asarray(hd["mf_shifts"]).tolist()), model=str((1j * m.l).tolist()))
    if abs(complex(np.asarray(hd["h0_prop"])) - m.h0_prop) > 1e-10 * max(1.0, abs(m.h0_prop)):
        _bad(ctx, "phaseless.constant_wrong", site, cfg, code=str(complex(np.asarray(hd["h0_prop"]))), model=m.h0_prop)
    e = np.asarray(hd["exp_h1"])
    want = m.exp_h1[0] if cfg["wt"] == "restricted" else m.exp_h1
    if _rel(e, want) > 1e-10:
        _bad(ctx, "phaseless.one_body_half_step_wrong", site, cfg, max_rel=_rel(e, want))


def compare_step(ctx, cfg, m, opname, up, dn, ov_old, w_old, e_shift, x, pd_new, stats):
    """Compare one propagate() call, walker by walker, with the model."""
    site = f"{'propagator_restricted' if cfg['wt'] == 'restricted' else 'propagator_unrestricted'}.propagate"
    up2, dn2 = split(cfg, pd_new)
    ov2 = np.asarray(pd_new["overlaps"])
    w2 = np.asarray(pd_new["weights"])
    nw = len(w_old)
    for i in range(nw):
        if not (np.all(np.isfinite(up[i])) and np.all(np.isfinite(dn[i])) and np.isfinite(abs(ov_old[i])) and abs(ov_old[i]) > 0):
            continue  # walker already blown up by an earlier injected fault: nothing to refine
        r = m.phaseless_step(up[i], dn[i], x[i], e_shift, overlap_cached=ov_old[i])
        fin = np.all(np.isfinite(r["up"])) and np.all(np.isfinite(r["dn"])) and np.isfinite(abs(r["ov_new"]))
        tol = 1e-9
        if fin:
            # after an injected huge field the new walker matrix is extremely ill conditioned and/or its
            # overlap with the trial is a tiny remainder of large cancelling terms; determinants then carry
            # (conditioning x eps) round-off in code and model alike: the tolerance follows the larger of
            # the matrix condition number and the cancellation factor |state| |psi| / |overlap|, and beyond
            # 1e5 the walker is not refined (counted)
            with np.errstate(all="ignore"):
                kappa = lab.cond(r["up"]) * lab.cond(r["dn"])
                st = m.state(r["up"], r["dn"])
                canc = float(np.linalg.norm(st) * np.linalg.norm(m.psi) / abs(r["ov_new"])) if abs(r["ov_new"]) > 0 else float("inf")
            kappa = max(kappa, canc)
            if not np.isfinite(kappa) or kappa > 1e5:
                stats["dropped_ill_conditioned"] = stats.get("dropped_ill_conditioned", 0) + 1
                continue
            tol = 1e-9 + 1e-10 * kappa
        if fin:
            scale = max(1.0, lab.amax(r["up"]), lab.amax(r["dn"]))
            du = lab.amax(up2[i] - r["up"])
            dd = lab.amax(dn2[i] - r["dn"])
            if not (du <= tol * scale and dd <= tol * scale):
                _bad(ctx, "phaseless.walker_differs_from_model", site, cfg, op=opname, walker=i, max_abs_diff=max(du, dd), fields=x[i].tolist())
                return
            if not abs(ov2[i] - r["ov_new"]) <= tol * abs(r["ov_new"]) + 1e-300:
                _bad(ctx, "phaseless.new_overlap_differs_from_model", site, cfg, op=opname, walker=i, code=str(complex(ov2[i])), model=str(complex(r["ov_new"])))
                return
        if w_old[i] == 0.0:
            if w2[i] != 0.0:
                _bad(ctx, "phaseless.dead_walker_reweighted", site, cfg, op=opname, walker=i, weight=float(w2[i]))
            continue
        if m.near_threshold(r["pre"], w_old[i], rel=max(1e-7, 10 * tol)):
            stats["skipped_at_threshold"] += 1
            continue
        want = r["factor"] * w_old[i]
        if want > 100.0:
            want = 0.0
        if not abs(w2[i] - want) <= tol * max(want, 1e-12):
            _bad(ctx, "phaseless.weight_factor_differs_from_model", site, cfg, op=opname, walker=i, code_factor=float(w2[i] / w_old[i]), model_factor=r["factor"],
                 model_unclipped=str(r["pre"]), theta=str(r["theta"]), fields=x[i].tolist())
            return
        stats["steps_compared"] += 1
        if r["factor"] == 0.0:
            if np.isfinite(r["pre"]) and r["pre"] <= 0:
                stats["walker_killed_by_phase"] += 1
            else:
                stats["walker_killed_by_window"] += 1
        elif abs(r["factor"] - 1.0) > 1e-6:
            stats["nontrivial_factors"] += 1


def quad_order(cfg):
    return 8 if cfg["nchol"] <= 2 else 6


def asymptotic(ratios, lo):
    """The O(dt^2) regime is judged on the fine end of the ladder (the statement speaks
    of halving a *small* dt)."""
    return min(ratios[-2:]) >= lo


def validate_model(ctx, cfg, s, up, dn, e_shift):
    """Oracle validation, on the model only: the Gauss-Hermite average of the model step
    equals expm(-dt(H-E)) up to O(dt^2) (ratio >= 3 at the fine end of the ladder).  A
    system on which even the model is not yet in the asymptotic regime (very distorted
    walker, large force bias) is counted, not failed: that is a fact about dt, not about
    the code."""
    res, ratios = phaseless.ladder_ratios(lambda dt: make_model(cfg, s, dt), up, dn, LADDER, e_shift=e_shift, order=quad_order(cfg))
    if asymptotic(ratios, 3.0) and res[-1] < 1e-3:
        ctx.count("model_validated")
        ctx.probe("model_validated", 1)
    else:
        ctx.count("model_not_asymptotic_on_this_walker")
    return res, ratios


def execute(cfg, ctx):
    if cfg["kind"] == "ladder":
        return _exec_ladder(cfg, ctx)
    if cfg["kind"] == "sampler":
        return _exec_sampler(cfg, ctx)
    return _exec_history(cfg, ctx)


def _exec_sampler(cfg, ctx):
    """The steps as the sampler composes them: one real sampler.propagate_phaseless call
    (n_sr_blocks x n_ene_blocks x n_prop_steps steps, QR, measurement, local reconfigurations)
    against the composition of MODEL steps driven by the same jax.random stream, in which
    every step divides by the true overlap of the walker it propagates.  The measurement is
    the model's exact mixed estimator, the reconfiguration the serial reference comb."""
    import jax.numpy as jnp
    from jax import random as jr

    from ad_afqmc import sampling

    from ..models import comb

    s, rs = build(cfg)
    m = make_model(cfg, s)
    restricted = cfg["wt"] == "restricted"
    nw, G, dt = cfg["n_walkers"], cfg["nchol"], cfg["dt"]
    walkers = start_walkers(cfg, s, rs)
    pd = s.plain.init_prop_data(s.trial, s.wave_data, dict(s.ham_data), walkers)
    ov = np.asarray(pd["overlaps"])
    if not (np.all(np.isfinite(np.abs(ov))) and np.min(np.abs(ov)) > 1e-4):
        ctx.count("precondition_start_overlap")
        return {"digest": None, "nontrivial": False}
    w0 = np.exp(cfg["weight_spread"] * (rs.uniform(size=nw) - 0.5))
    pd["weights"] = jnp.array(w0)
    pd["key"] = jr.PRNGKey(cfg["jax_seed"])
    smp = sampling.sampler(cfg["n_prop_steps"], cfg["n_ene_blocks"], cfg["n_sr_blocks"], 1)
    site = "sampler.propagate_phaseless (composition of phaseless steps)"
    e_code, pd_code = smp.propagate_phaseless(s.ham, dict(s.ham_data), s.plain, lab.copy_pd(pd), s.trial, s.wave_data)
    # ---- model side ---------------------------------------------------------------------
    nu, nd = cfg["nelec"]
    W = [np.asarray(pd["walkers"])[i] for i in range(nw)] if restricted else [(np.asarray(pd["walkers"][0])[i], np.asarray(pd["walkers"][1])[i]) for i in range(nw)]

    def ud(w):
        return (w[:, :nu], w[:, :nd]) if restricted else w

    wts = w0.copy()
    e_est = float(np.asarray(pd["e_estimate"]))
    shift = e_est
    key = pd["key"]
    cap = math.sqrt(2.0 / dt)
    be_l, bw_l = [], []
    near = False
    changed = 0
    for _ in range(cfg["n_sr_blocks"]):
        for _ in range(cfg["n_ene_blocks"]):
            key, sub = jr.split(key)
            fields = np.asarray(jr.normal(sub, shape=(cfg["n_prop_steps"], nw, G)))
            for st in range(cfg["n_prop_steps"]):
                for i in range(nw):
                    u, d = ud(W[i])
                    r = m.phaseless_step(u, d, fields[st, i], shift)
                    if wts[i] > 0 and m.near_threshold(r["pre"], wts[i]):
                        near = True
                    if restricted:
                        T, _ = m.taylor(fields[st, i] - r["xbar"])
                        W[i] = m.exp_h1[0] @ (T @ (m.exp_h1[0] @ W[i]))
                    else:
                        W[i] = (r["up"], r["dn"])
                    wn = r["factor"] * wts[i]
                    wts[i] = 0.0 if (wn > 100.0 or not np.isfinite(wn)) else wn
                tot = float(np.sum(wts))
                shift = e_est - 0.1 * math.log(tot / nw) / dt if tot > 0 else float("inf")
            # re-orthonormalisation, measurement with the exact mixed estimator, shift mixing
            el = np.zeros(nw)
            for i in range(nw):
                if restricted:
                    W[i] = np.linalg.qr(W[i])[0]
                else:
                    W[i] = (np.linalg.qr(W[i][0])[0], np.linalg.qr(W[i][1])[0])
                if wts[i] > 0:
                    el[i] = float(np.real(m.local_energy(*ud(W[i]))))
                    if abs(abs(el[i] - e_est) - cap) < 1e-6 * cap:
                        near = True
                    if abs(el[i] - e_est) > cap:
                        el[i] = e_est
            bw = float(np.sum(wts))
            if bw <= 0:
                ctx.count("sampler_runs_extinct")
                return {"digest": None, "nontrivial": False}
            be = float(np.sum(el * wts) / bw)
            be_l.append(be)
            bw_l.append(bw)
            shift = 0.9 * shift + 0.1 * be
        key, sub = jr.split(key)
        zeta = float(jr.uniform(sub))
        absw = [abs(float(x)) for x in wts]
        if comb.distance_to_breakpoint(absw, zeta) < 1e-7:
            near = True
        idx = comb.comb_indices(absw, zeta)
        if idx != list(range(nw)):
            changed += 1
        W = [W[j] for j in idx]
        wts = np.ones(nw) * (float(np.sum(np.abs(wts))) / nw)
    if near:
        ctx.count("skipped_at_threshold")
        ctx.probe("skipped_at_threshold", 1)
        return {"digest": None, "nontrivial": False}
    e_model = float(np.sum(np.array(be_l) * np.array(bw_l)) / np.sum(bw_l))
    e_c = float(np.asarray(e_code))
    # the hand-coded CISD / UCISD energies contract their doubles-doubles term in single precision on purpose (complex64 / float32)
    e_tol = 2e-6 if cfg["trial"] in ("cisd", "ucisd") else 1e-8
    if not abs(e_c - e_model) <= e_tol * max(1.0, abs(e_model)):
        _bad(ctx, "phaseless.sampler_energy_differs_from_composed_model_steps", site, cfg, sampler=e_c, model=e_model, block_energies_model=be_l)
    wc = np.asarray(pd_code["weights"])
    if not np.allclose(wc, wts, rtol=1e-8, atol=1e-12):
        _bad(ctx, "phaseless.sampler_weights_differ_from_composed_model_steps", site, cfg, sampler=wc.tolist(), model=wts.tolist())
    ovm = np.array([abs(m.overlap(*ud(w))) for w in W])
    ovc = np.abs(np.asarray(pd_code["overlaps"]))
    if not np.allclose(ovc, ovm, rtol=1e-7, atol=1e-300):
        _bad(ctx, "phaseless.sampler_walkers_differ_from_composed_model_steps", site, cfg, abs_overlaps_sampler=ovc.tolist(), abs_overlaps_model=ovm.tolist())
    ctx.probe("sampler_runs", 1)
    ctx.probe("sampler_sr_changed_population", changed)
    nsteps = cfg["n_prop_steps"] * cfg["n_ene_blocks"] * cfg["n_sr_blocks"]
    ctx.count("steps", nsteps)
    return {"digest": arr_hash(np.array([e_c]), wc), "nontrivial": changed > 0,
            "state_keys": [f"sampler-{cfg['wt']}-{cfg['trial']}-{cfg['nelec']}-{cfg['n_prop_steps']}{cfg['n_ene_blocks']}{cfg['n_sr_blocks']}-sr{int(changed > 0)}"],
            "sim_steps": nsteps * nw, "sim_time": nsteps * dt,
            "sample": {"cfg": cfg, "energy_sampler": e_c, "energy_model": e_model, "block_energies_model": be_l, "reconfigurations_that_changed_population": changed}}


def _exec_history(cfg, ctx):
    import jax.numpy as jnp
    from jax import random as jr

    s, rs = build(cfg)
    m = make_model(cfg, s)
    check_intermediates(ctx, cfg, s, m)
    walkers = start_walkers(cfg, s, rs)
    pd = s.plain.init_prop_data(s.trial, s.wave_data, dict(s.ham_data), walkers)
    pd["key"] = jr.PRNGKey(cfg["jax_seed"])
    ov = np.asarray(pd["overlaps"])
    if not (np.all(np.isfinite(np.abs(ov))) and np.min(np.abs(ov)) > 1e-4):
        ctx.count("precondition_start_overlap")
        return {"digest": None, "nontrivial": False}
    up, dn = split(cfg, pd)
    validate_model(ctx, cfg, s, up[0], dn[0], float(np.asarray(pd["pop_control_ene_shift"])))
    nw, G = cfg["n_walkers"], cfg["nchol"]
    key = jr.PRNGKey(cfg["jax_seed"] + 3)
    stats = dict(steps_compared=0, skipped_at_threshold=0, walker_killed_by_phase=0, walker_killed_by_window=0, nontrivial_factors=0)
    rec = []
    nsteps = 0
    site_p = "propagator.propagate"
    for k, op in enumerate(cfg["ops"]):
        name = op[0]
        if name in ("step", "tail", "huge"):
            key, sub = jr.split(key)
            x = np.array(jr.normal(sub, shape=(nw, G)))
            if name == "tail":
                x[op[1], :] *= op[2]
                ctx.probe("fault_steps", 1)
            elif name == "huge":
                x[op[1], op[2]] = op[3]
                ctx.probe("fault_steps", 1)
            up, dn = split(cfg, pd)
            ov_old, w_old = np.asarray(pd["overlaps"]), np.asarray(pd["weights"])
            e_shift = float(np.asarray(pd["pop_control_ene_shift"]))
            pd = s.plain.propagate(s.trial, s.ham_data, lab.copy_pd(pd), jnp.array(x), s.wave_data)
            compare_step(ctx, cfg, m, f"{k}:{name}", up, dn, ov_old, w_old, e_shift, x, pd, stats)
            w = np.asarray(pd["weights"])
            if float(np.sum(w)) > 0:
                want_shift = float(np.asarray(pd["e_estimate"])) - 0.1 * math.log(float(np.sum(w)) / nw) / cfg["dt"]
                got = float(np.asarray(pd["pop_control_ene_shift"]))
                if not abs(got - want_shift) <= 1e-9 * max(1.0, abs(want_shift)):
                    _bad(ctx, "phaseless.shift_update_wrong", site_p, cfg, op=k, code=got, expected=want_shift)
            nsteps += 1
            rec.append(arr_hash(w, np.asarray(pd["overlaps"])))
        elif name == "qr":
            pd = s.plain.orthonormalize_walkers(lab.copy_pd(pd))
            pd["overlaps"] = s.trial.calc_overlap(pd["walkers"], s.wave_data)
        elif name == "sr":
            if float(np.sum(np.asarray(pd["weights"]))) > 0:
                pd = s.plain.stochastic_reconfiguration_local(lab.copy_pd(pd))
                pd["overlaps"] = s.trial.calc_overlap(pd["walkers"], s.wave_data)
        elif name == "nodes":
            # scripted batch: the quadrature nodes as the fields of one walker (state is not advanced)
            i0 = op[1]
            up, dn = split(cfg, pd)
            if not (np.all(np.isfinite(up[i0])) and np.all(np.isfinite(dn[i0])) and float(np.asarray(pd["weights"])[i0]) > 0):
                continue
            nodes, _ = m.gh_nodes(3)
            pdn = lab.copy_pd(pd)
            if cfg["wt"] == "restricted":
                pdn["walkers"] = jnp.array(np.repeat(np.asarray(pd["walkers"])[i0 : i0 + 1], nw, axis=0))
            else:
                pdn["walkers"] = [jnp.array(np.repeat(np.asarray(pd["walkers"][s_])[i0 : i0 + 1], nw, axis=0)) for s_ in (0, 1)]
            pdn["weights"] = jnp.ones(nw)
            pdn["overlaps"] = jnp.array(np.repeat(np.asarray(pd["overlaps"])[i0 : i0 + 1], nw))
            e_shift = float(np.asarray(pd["pop_control_ene_shift"]))
            for c in range(0, len(nodes), nw):
                x = np.zeros((nw, G))
                chunk = nodes[c : c + nw]
                x[: len(chunk)] = chunk
                upn, dnn = split(cfg, pdn)
                out = s.plain.propagate(s.trial, s.ham_data, lab.copy_pd(pdn), jnp.array(x), s.wave_data)
                compare_step(ctx, cfg, m, f"{k}:nodes[{c}]", upn, dnn, np.asarray(pdn["overlaps"]), np.ones(nw), e_shift, x, out, stats)
            ctx.probe("nodes_batches", 1)
    for kk, v in stats.items():
        ctx.probe(kk, v)
        ctx.count(kk, v)
    ctx.count("steps", nsteps)
    return {"digest": arr_hash(np.frombuffer("|".join(rec).encode(), np.uint8)), "nontrivial": stats["nontrivial_factors"] >= 3,
            "state_keys": [f"hist-{cfg['wt']}-{cfg['trial']}-{cfg['nelec']}-G{cfg['nchol']}-dt{cfg['dt']}-n{cfg['n_exp_terms']}-{cfg['rdm1_kind']}"],
            "sim_steps": nsteps, "sim_time": nsteps * cfg["dt"],
            "sample": {"cfg": cfg, "stats": stats, "final_weights": np.asarray(pd["weights"]).tolist()}}


def _exec_ladder(cfg, ctx):
    """The averaged identity evaluated on the code's outputs, on the dt ladder."""
    import jax
    import jax.numpy as jnp
    from jax import random as jr

    order = quad_order(cfg)
    res, res_model = [], []
    site = f"{'propagator_restricted' if cfg['wt'] == 'restricted' else 'propagator_unrestricted'}.propagate"
    nw, G = cfg["n_walkers"], cfg["nchol"]
    walker0 = None
    for dt in LADDER:
        s, rs = build(cfg, dt=dt)
        m = make_model(cfg, s, dt)
        check_intermediates(ctx, dict(cfg, dt=dt), s, m)
        if walker0 is None:
            walker0 = start_walkers(cfg, s, rs)
        pd = s.plain.init_prop_data(s.trial, s.wave_data, dict(s.ham_data), walker0)
        ov = np.asarray(pd["overlaps"])
        if not (np.all(np.isfinite(np.abs(ov))) and np.min(np.abs(ov)) > 1e-4):
            ctx.count("precondition_start_overlap")
            return {"digest": None, "nontrivial": False}
        # all walkers = walker 0
        if cfg["wt"] == "restricted":
            pd["walkers"] = jnp.array(np.repeat(np.asarray(pd["walkers"])[0:1], nw, axis=0))
        else:
            pd["walkers"] = [jnp.array(np.repeat(np.asarray(pd["walkers"][s_])[0:1], nw, axis=0)) for s_ in (0, 1)]
        pd["overlaps"] = jnp.array(np.repeat(ov[0:1], nw))
        e_shift = float(np.asarray(pd["e_estimate"])) + cfg["e_shift_offset"]
        pd["pop_control_ene_shift"] = jnp.array(e_shift)
        up, dn = split(cfg, pd)
        fb = np.asarray(jax.jit(lambda w, hd, wd: s.trial.calc_force_bias(w, hd, wd))(pd["walkers"], s.ham_data, s.wave_data))[0]
        mf = np.asarray(s.ham_data["mf_shifts"])
        h0p = complex(np.asarray(s.ham_data["h0_prop"]))
        sq = math.sqrt(dt)
        xbar = -sq * (1j * fb - mf)
        nodes, weights = m.gh_nodes(order)
        acc = np.zeros(m.sec.dim, dtype=complex)
        for c in range(0, len(nodes), nw):
            chunk = nodes[c : c + nw]
            x = np.zeros((nw, G))
            x[: len(chunk)] = chunk
            out = s.plain.propagate(s.trial, s.ham_data, lab.copy_pd(pd), jnp.array(x), s.wave_data)
            up2, dn2 = split(cfg, out)
            ov2 = np.asarray(out["overlaps"])
            w2 = np.asarray(out["weights"])
            for j in range(len(chunk)):
                xs = x[j] - xbar
                shift_term = np.sum(xs * mf)
                fb_term = np.sum(x[j] * xbar - xbar * xbar / 2.0)
                imp = np.exp(-sq * shift_term + fb_term + dt * (e_shift + h0p)) * ov2[j] / ov[0]
                theta = np.angle(np.exp(-sq * shift_term) * ov2[j] / ov[0])
                pre = abs(imp) * math.cos(theta)
                # the importance function rebuilt from the code's pieces is the one the code applied
                if not m.near_threshold(pre):
                    fac = 0.0 if (np.isnan(pre) or pre < 1e-3 or pre > 100.0) else pre
                    if not abs(w2[j] - fac) <= 1e-9 * max(fac, 1e-12):
                        _bad(ctx, "phaseless.applied_weight_is_not_modulus_times_cos", site, cfg, dt=dt, node=x[j].tolist(), applied=float(w2[j]), rebuilt=pre)
                acc += weights[c + j] * imp * m.state(up2[j], dn2[j]) / ov2[j]
        target = m.phaseless_target(up[0], dn[0], e_shift)
        acc_model = m.phaseless_average(up[0], dn[0], e_shift, order)
        tn = float(np.linalg.norm(target))
        # the code's field average (rebuilt from the code's own outputs) is the model's
        if not float(np.linalg.norm(acc - acc_model)) <= 1e-8 * tn:
            _bad(ctx, "phaseless.field_average_differs_from_model", site, cfg, dt=dt, rel_diff=float(np.linalg.norm(acc - acc_model)) / tn)
        res.append(float(np.linalg.norm(acc - target)) / tn)
        res_model.append(float(np.linalg.norm(acc_model - target)) / tn)
    ratios = [res[i] / res[i + 1] if res[i + 1] > 0 else float("inf") for i in range(len(res) - 1)]
    ratios_model = [res_model[i] / res_model[i + 1] if res_model[i + 1] > 0 else float("inf") for i in range(len(res) - 1)]
    ctx.probe("ladder_runs", 1)
    ctx.count("quadrature_nodes_through_code", len(LADDER) * len(nodes))
    if asymptotic(ratios_model, 3.3) and res_model[-1] < 5e-4:
        ctx.probe("ladder_asymptotic", 1)
        if not (asymptotic(ratios, 3.0) and res[-1] < 1e-3):
            _bad(ctx, "phaseless.field_average_not_exp_minus_dt_H", site, cfg, residuals=res, ratios=ratios, model_residuals=res_model, model_ratios=ratios_model)
    else:
        ctx.count("model_not_asymptotic_on_this_walker")
    return {"digest": arr_hash(np.array(res)), "nontrivial": True,
            "state_keys": [f"ladder-{cfg['wt']}-{cfg['trial']}-{cfg['nelec']}-G{cfg['nchol']}-n{cfg['n_exp_terms']}-{cfg['rdm1_kind']}"],
            "sim_steps": len(LADDER) * len(nodes), "sim_time": sum(LADDER) * len(nodes),
            "sample": {"cfg": cfg, "residuals": res, "ratios": ratios, "model_residuals": res_model, "model_ratios": ratios_model}}


def shrink_candidates(cfg, decisions):
    from ..shrink import drop_each

    if cfg["kind"] == "history":
        ops = cfg["ops"]
        n = len(ops)
        for keep in (n // 2, n - 1):
            if 0 < keep < n:
                yield dict(cfg, ops=ops[:keep]), decisions
        for cand in drop_each(ops, max_candidates=40):
            if cand:
                yield dict(cfg, ops=cand), decisions
    for k, v in (("mix", 0.0), ("strength", 0.2), ("spin_dep", False), ("rdm1_kind", "own"), ("walker_noise", 0.05)):
        if cfg.get(k) != v:
            yield dict(cfg, **{k: v}), decisions
