"""C10 - the CPMC step samples the discrete Hubbard-Stratonovich propagator without bias.

The auxiliary-field choices are the simulator's: uniform numbers are scripted (random,
forcing every one of the 2^n configurations, or placed just beside a branch
probability) and fed through the public `gaussian_rns` argument.

  walk        short walks driven through propagator_cpmc AND propagator_cpmc_slow in
              lock-step with the CPMC reference model (same numbers): per step and walker
              walkers / weights / overlaps agree, the incrementally updated Green's
              functions and overlaps equal their from-scratch values, shift update;
  exhaustive  all 2^n configurations forced through the real step from one state:
              sum_x P(x) w'(x) |phi'(x)>/ov'(x) equals
              e^{dt E} e^{-dt K/2} prod_i e^{-dt U n_up n_dn} e^{-dt K/2} |phi>/ov (round-off)
              whenever no constraint fires; the model itself is validated the same way;
  pairs       calc_overlap_ratio / update_greens_function on every ordered pair of
              spin-orbitals with random update constants vs from-scratch values;
  nn          neighbour-interaction propagators fast vs slow under the same key.
"""
import itertools
import math
import random

import numpy as np

from .. import lab
from ..core import arr_hash
from ..models import cpmc as cpmc_model
from ..models import fock

ID = "C10"
NAME = "cpmc_step"
TITLE = "CPMC step samples the discrete Hubbard-Stratonovich propagator without bias"

MENU = {"quick": 48, "thorough": 192}
TIERS = {
    "quick": dict(runs=48 * 12, budget_s=300, recheck=2, shrink_s=60.0, run_timeout_s=900),
    "thorough": dict(runs=192 * 150, budget_s=1200, recheck=6, shrink_s=180.0, run_timeout_s=1800),
}
RULE = (
    "run i uses compiled-menu entry i mod M (lattice chain 2-4 / 2x2, filling with both spins present, UHF or GHF trial, dt, walkers, "
    "kind walk/exhaustive/pairs/nn, Cholesky vectors as the examples pass them (Hubbard) or none) and draws U, trial density profile "
    "(staggered field, noise, spin rotation), start walker, per-step uniform-number script and keys from sha256(seed|C10|i). "
    "Non-trivial = both branches of some site were taken across the batch; distinct = distinct digest."
)
ASSUMPTIONS = [
    "K is the lattice hopping matrix the Hamiltonian was built from (h1), as the property states",
    "comparisons whose outcome depends on a clip (1e-8 ratio / weight, weight 100) or on a uniform number within 1e-9 of a branch probability are skipped and counted",
    "branch probabilities P(x) in the exhaustive sum come from the model; the code's choices are tied to them by the walk runs with uniform numbers placed 1e-6 beside the branch probability",
    "real walkers and real trials (CPMC path of the library is real)",
]
COMPONENTS = {
    "real": ["ad_afqmc.propagation.propagator_cpmc / _cpmc_slow / _cpmc_nn / _cpmc_nn_slow (propagate, propagate_one_body, init_prop_data)",
             "ad_afqmc.wavefunctions.uhf_cpmc / ghf_cpmc (calc_overlap_ratio, update_greens_function, calc_full_green, calc_overlap)", "ad_afqmc.lattices (adjacency)", "jax / XLA CPU"],
    "model": ["afqmcsim.models.cpmc.CPMCModel", "afqmcsim.models.fock"],
    "stub": [],
}
REQUIRED_PROBES = {"quick": ["walk_steps_compared", "exhaustive_sums", "model_exhaustive_validated", "pairs_checked", "same_spin_pairs", "nn_steps_compared", "both_branches_taken", "near_branch_uniforms", "one_body_sign_flip", "one_field_forbidden_walkers"],
                   "thorough": ["walk_steps_compared", "exhaustive_sums", "model_exhaustive_validated", "pairs_checked", "same_spin_pairs", "nn_steps_compared", "both_branches_taken", "near_branch_uniforms", "constraint_fired", "one_body_sign_flip"]}


def menu_entry(k):
    r = random.Random(100000 + k)
    kind = ["walk", "exhaustive", "pairs", "walk", "nn", "exhaustive"][k % 6]
    lattice = r.choice(["chain", "chain", "grid2x2"])
    n = 4 if lattice == "grid2x2" else r.choice([2, 3, 4])
    nelec = r.choice([[1, 1], [2, 1], [2, 2]]) if n >= 3 else [1, 1]
    m = dict(kind=kind, lattice=lattice, n_sites=n, nelec=nelec, trial=["uhf_cpmc", "ghf_cpmc"][(k // 6) % 2], dt=r.choice([0.01, 0.05]), chol=r.choice(["hubbard", "hubbard", "zero"]))
    m["n_walkers"] = 2**n if kind == "exhaustive" else r.choice([4, 6])
    return m


def gen_cfg(seed, index, tier):
    m = dict(menu_entry(index % MENU[tier]))
    rng = random.Random(seed)
    m["menu"] = index % MENU[tier]
    m["ham_seed"] = rng.randrange(1, 2**31 - 1)
    m["u"] = rng.choice([1.0, 4.0, 8.0])
    m["u_1"] = rng.choice([0.5, 1.0, 2.0]) if m["kind"] == "nn" else 0.0
    m["stagger"] = rng.choice([0.0, 0.3, 1.0])
    m["noise"] = rng.choice([0.0, 0.2, 0.6])
    m["theta"] = rng.choice([0.0, 0.3, 0.785])
    m["walker_noise"] = rng.choice([0.02, 0.1, 0.3])
    m["pinning"] = rng.choice([0.0, 0.0, 0.25, 0.6])  # spin-dependent one-body field (legal h1 input)
    m["jax_seed"] = rng.randrange(1, 2**20)
    m["e_shift"] = rng.choice([0.0, -1.0, 0.7])
    if m["kind"] == "walk":
        m["steps"] = [rng.choice(["random", "random", "forced", "near"]) for _ in range(rng.randint(3, 12))]
        m["node_walker"] = rng.random() < 0.35
        # walker 1: at the first site exactly one of the two field values is forbidden by the constraint
        m["site_node_field"] = rng.choice([None, 0, 1])
    if m["kind"] == "nn":
        m["n_steps"] = rng.randint(2, 8)
        m["nn_bonds"] = rng.choice(["lattice", "open", "extended"])
    if m["kind"] == "exhaustive":
        m["pre_steps"] = rng.choice([0, 1, 3])
    return m


def group_of(cfg):
    return f"m{cfg['menu']:03d}"


def group_of_index(seed, index, tier):
    return f"m{index % MENU[tier]:03d}"


def spec_of(cfg, prop):
    return dict(nn_bonds=cfg.get("nn_bonds", "lattice"), pinning=cfg.get("pinning", 0.0), lattice=cfg["lattice"], n_sites=cfg["n_sites"], nelec=cfg["nelec"], u=cfg["u"], u_1=cfg["u_1"], dt=cfg["dt"], n_walkers=cfg["n_walkers"], prop=prop,
                trial=cfg["trial"], chol=cfg["chol"], stagger=cfg["stagger"], noise=cfg["noise"], theta=cfg["theta"], ham_seed=cfg["ham_seed"])


def _bad(ctx, klass, site, cfg, **d):
    d["trigger"] = {"trial": cfg["trial"], "chol": cfg["chol"], "kind": cfg["kind"]}
    d["menu"] = cfg["menu"]
    ctx.violation(klass, site, d)


def start_walkers(cfg, s, same=False):
    import jax.numpy as jnp

    rs = np.random.RandomState((cfg["ham_seed"] + 5) % (2**32 - 1))
    nw = cfg["n_walkers"]
    ca, cb = np.asarray(s.init_walkers[0])[0].real, np.asarray(s.init_walkers[1])[0].real
    out = []
    for c in (ca, cb):
        if same:
            x = np.repeat((c + cfg["walker_noise"] * rs.normal(size=c.shape))[None], nw, axis=0)
        else:
            x = c[None] + cfg["walker_noise"] * rs.normal(size=(nw,) + c.shape)
        out.append(jnp.array(x + 0.0j))
    return out


def make_model(cfg, s):
    sec = fock.Sector(cfg["n_sites"], cfg["nelec"])
    psi = fock.trial_state(sec, cfg["trial"], s.wave_data)
    K = np.asarray(s.ham_data_raw["h1"])
    return cpmc_model.CPMCModel(cfg["n_sites"], cfg["nelec"], K, cfg["u"], cfg["dt"], psi)


def check_one_body(ctx, cfg, s, m):
    e = np.asarray(s.ham_data["exp_h1"])
    for sp in (0, 1):
        if not np.allclose(e[sp], m.expK2[sp], rtol=1e-10, atol=1e-12):
            _bad(ctx, "cpmc.one_body_factor_is_not_exp_minus_dt_K_half", "propagator_cpmc._build_propagation_intermediates", cfg,
                 max_abs_diff=float(np.max(np.abs(e[sp] - m.expK2[sp]))), spin=sp)
            return False
    return True


def check_cache(ctx, cfg, s, pd, site, where):
    """greens / overlaps kept incrementally equal their from-scratch values (live walkers)."""
    w = np.asarray(pd["weights"])
    live = (w > 0) & np.isfinite(w)
    if not np.any(live):
        return
    g = np.asarray(pd["greens"])[live]
    g0 = np.asarray(s.trial.calc_full_green_vmap(pd["walkers"], s.wave_data))[live]
    if not np.allclose(g, g0, rtol=1e-8, atol=1e-8):
        _bad(ctx, "cpmc.cached_greens_function_differs_from_scratch", site, cfg, where=where, max_abs_diff=float(np.nanmax(np.abs(g - g0))))
    o = np.asarray(pd["overlaps"])[live]
    o0 = np.asarray(s.trial.calc_overlap(pd["walkers"], s.wave_data))[live]
    if not np.allclose(o, o0, rtol=1e-8, atol=1e-300):
        _bad(ctx, "cpmc.cached_overlap_differs_from_scratch", site, cfg, where=where, cached=str(o.tolist()), fresh=str(o0.tolist()))


def execute(cfg, ctx):
    return {"walk": _exec_walk, "exhaustive": _exec_exhaustive, "pairs": _exec_pairs, "nn": _exec_nn}[cfg["kind"]](cfg, ctx)


def _propagate(s, prop, pd, g):
    import jax.numpy as jnp

    return prop.propagate(s.trial, s.ham_data, lab.copy_pd(pd), jnp.array(g), s.wave_data)


def _compare_with_model(ctx, cfg, m, variant, site, opname, up0, dn0, ov0, w0, uni, e_shift, pd_new, stats):
    nw = len(w0)
    up1, dn1 = np.asarray(pd_new["walkers"][0]).real, np.asarray(pd_new["walkers"][1]).real
    ov1, w1 = np.asarray(pd_new["overlaps"]), np.asarray(pd_new["weights"])
    for i in range(nw):
        if not (w0[i] > 0 and np.isfinite(ov0[i]) and ov0[i] != 0):
            continue
        r = m.step(up0[i], dn0[i], ov0[i].real, float(w0[i]), uni[i], e_shift, variant)
        if r["near"]:
            stats["skipped_at_threshold"] += 1
            continue
        if r["clipped"]:
            stats["constraint_fired"] += 1
        if r.get("one_body_sign_flip"):
            stats["one_body_sign_flip"] = stats.get("one_body_sign_flip", 0) + 1
        if r["w"] == 0.0:
            if not (w1[i] == 0.0):
                _bad(ctx, "cpmc.weight_differs_from_model", site, cfg, op=opname, walker=i, code=float(w1[i]), model=0.0)
                return
            continue
        scale = max(1.0, float(np.max(np.abs(r["up"]))), float(np.max(np.abs(r["dn"]))))
        if not (np.max(np.abs(up1[i] - r["up"])) <= 1e-9 * scale and np.max(np.abs(dn1[i] - r["dn"])) <= 1e-9 * scale):
            _bad(ctx, "cpmc.walker_differs_from_model", site, cfg, op=opname, walker=i, choices_model=r["choices"], prob0=r["prob0"], uniforms=list(map(float, uni[i])))
            return
        if not abs(w1[i] - r["w"]) <= 1e-9 * max(r["w"], 1e-12):
            _bad(ctx, "cpmc.weight_differs_from_model", site, cfg, op=opname, walker=i, code=float(w1[i]), model=r["w"])
            return
        if not abs(ov1[i] - r["ov"]) <= 1e-8 * abs(r["ov"]):
            _bad(ctx, "cpmc.overlap_differs_from_model", site, cfg, op=opname, walker=i, code=str(complex(ov1[i])), model=str(r["ov"]))
            return
        stats["walk_steps_compared"] += 1
        stats["choices"].update((k, c) for k, c in enumerate(r["choices"]))


def _exec_walk(cfg, ctx):
    import jax.numpy as jnp

    sf = lab.build_cpmc_system(spec_of(cfg, "propagator_cpmc"))
    ss = lab.build_cpmc_system(spec_of(cfg, "propagator_cpmc_slow"))
    m = make_model(cfg, sf)
    ok_one_body = check_one_body(ctx, cfg, sf, m)
    w0 = start_walkers(cfg, sf)
    min_ov = 1e-4
    if cfg.get("node_walker"):
        # walker 0 sits right at the trial's nodal surface: positive overlap that the
        # one-body half step turns negative (the constraint must then kill it)
        nd = cpmc_model.node_straddling_walker(m, np.asarray(w0[0])[0].real, np.asarray(w0[1])[0].real, np.random.RandomState(cfg["jax_seed"] + 11))
        if nd is not None:
            a, b = np.array(w0[0]), np.array(w0[1])
            a[0], b[0] = nd[0], nd[1]
            w0 = [jnp.array(a), jnp.array(b)]
            min_ov = 0.0
            ctx.probe("node_straddling_walkers", 1)
    if cfg.get("site_node_field") is not None and cfg["n_walkers"] > 1:
        sn = cpmc_model.site_node_walker(m, np.asarray(w0[0])[1].real, np.asarray(w0[1])[1].real, np.random.RandomState(cfg["jax_seed"] + 13), 0, cfg["site_node_field"])
        if sn is not None:
            a, b = np.array(w0[0]), np.array(w0[1])
            a[1], b[1] = sn[0], sn[1]
            w0 = [jnp.array(a), jnp.array(b)]
            min_ov = 0.0
            ctx.probe("one_field_forbidden_walkers", 1)
    pf = sf.plain.init_prop_data(sf.trial, sf.wave_data, dict(sf.ham_data), [jnp.array(w0[0]), jnp.array(w0[1])])
    ps = ss.plain.init_prop_data(ss.trial, ss.wave_data, dict(ss.ham_data), [jnp.array(w0[0]), jnp.array(w0[1])])
    ov = np.asarray(pf["overlaps"])
    if not (np.all(np.isfinite(ov)) and np.min(np.abs(ov)) > min_ov and np.all(ov.real > 0)):
        ctx.count("precondition_start_overlap")
        return {"digest": None, "nontrivial": False}
    for p_ in (pf, ps):
        p_["pop_control_ene_shift"] = jnp.array(cfg["e_shift"] + float(np.asarray(p_["e_estimate"])))
    nw, n = cfg["n_walkers"], cfg["n_sites"]
    rs = np.random.RandomState(cfg["jax_seed"])
    stats = dict(walk_steps_compared=0, skipped_at_threshold=0, constraint_fired=0, choices=set())
    rec = []
    for k, mode in enumerate(cfg["steps"]):
        up0, dn0 = np.asarray(pf["walkers"][0]).real, np.asarray(pf["walkers"][1]).real
        ov0, wt0 = np.asarray(pf["overlaps"]), np.asarray(pf["weights"])
        e_shift = float(np.asarray(pf["pop_control_ene_shift"]))
        uni = rs.uniform(1e-6, 1 - 1e-6, size=(nw, n))
        if mode == "forced":
            for i in range(nw):
                cfgx = [rs.randint(0, 2) for _ in range(n)]
                uni[i] = m.forced_uniforms(cfgx)
        elif mode == "near":
            # place one uniform number just beside the branch probability the model predicts
            for i in range(nw):
                if not (wt0[i] > 0):
                    continue
                site = rs.randint(0, n)
                r0 = m.step(up0[i], dn0[i], ov0[i].real, float(wt0[i]), uni[i], e_shift, "fast")
                if site < len(r0["prob0"]) and np.isfinite(r0["prob0"][site]):
                    p0 = r0["prob0"][site]
                    cand = p0 + rs.choice([-1.0, 1.0]) * rs.choice([1e-6, 1e-4])
                    if 1e-9 < cand < 1 - 1e-9:
                        uni[i, site] = cand
                        ctx.probe("near_branch_uniforms", 1)
        g = np.array([[cpmc_model.gaussian_for_uniform(u) for u in row] for row in uni])
        # uniform numbers as the library will see them
        from scipy.special import erf

        uni_seen = (erf(g / math.sqrt(2.0)) + 1.0) / 2.0
        pf = _propagate(sf, sf.plain, pf, g)
        ps = _propagate(ss, ss.plain, ps, g)
        if ok_one_body:
            _compare_with_model(ctx, cfg, m, "fast", "propagator_cpmc.propagate", f"{k}:{mode}", up0, dn0, ov0, wt0, uni_seen, e_shift, pf, stats)
            _compare_with_model(ctx, cfg, m, "slow", "propagator_cpmc_slow.propagate", f"{k}:{mode}", up0, dn0, ov0, wt0, uni_seen, e_shift, ps, stats)
        # fast vs slow lock-step
        wf, ws = np.asarray(pf["weights"]), np.asarray(ps["weights"])
        safe = (np.abs(wf - 1e-8) > 1e-12) & (np.abs(wf - 100) > 1e-5)
        if not np.allclose(wf[safe], ws[safe], rtol=1e-9, atol=1e-13):
            _bad(ctx, "cpmc.fast_and_slow_propagators_disagree", "propagator_cpmc vs propagator_cpmc_slow", cfg, op=k, what="weights", fast=wf.tolist(), slow=ws.tolist())
        live = (wf > 0) & (ws > 0)
        for sp in (0, 1):
            if not np.allclose(np.asarray(pf["walkers"][sp])[live], np.asarray(ps["walkers"][sp])[live], rtol=1e-9, atol=1e-11):
                _bad(ctx, "cpmc.fast_and_slow_propagators_disagree", "propagator_cpmc vs propagator_cpmc_slow", cfg, op=k, what="walkers")
        if not np.allclose(np.asarray(pf["overlaps"])[live], np.asarray(ps["overlaps"])[live], rtol=1e-8, atol=1e-300):
            _bad(ctx, "cpmc.fast_and_slow_propagators_disagree", "propagator_cpmc vs propagator_cpmc_slow", cfg, op=k, what="overlaps")
        check_cache(ctx, cfg, sf, pf, "propagator_cpmc.propagate", f"after step {k}")
        if float(np.sum(wf)) > 0:
            want = float(np.asarray(pf["e_estimate"])) - 0.1 * math.log(float(np.sum(wf)) / nw) / cfg["dt"]
            if not abs(float(np.asarray(pf["pop_control_ene_shift"])) - want) <= 1e-9 * max(1.0, abs(want)):
                _bad(ctx, "cpmc.shift_update_wrong", "propagator_cpmc.propagate", cfg, op=k)
        rec.append(arr_hash(wf, np.asarray(pf["overlaps"])))
        if float(np.sum(wf)) <= 0:
            break
    taken = {}
    for site, c in stats["choices"]:
        if c is not None:
            taken.setdefault(site, set()).add(c)
    both = any(len(v) == 2 for v in taken.values())
    ctx.probe("both_branches_taken", both)
    for kk in ("walk_steps_compared", "skipped_at_threshold", "constraint_fired", "one_body_sign_flip"):
        ctx.probe(kk, stats.get(kk, 0))
        ctx.count(kk, stats.get(kk, 0))
    return {"digest": arr_hash(np.frombuffer("|".join(rec).encode(), np.uint8)), "nontrivial": both,
            "state_keys": [f"walk-{cfg['lattice']}{cfg['n_sites']}-{cfg['nelec']}-{cfg['trial']}-{cfg['chol']}-U{cfg['u']}-dt{cfg['dt']}"],
            "sim_steps": len(cfg["steps"]), "sim_time": len(cfg["steps"]) * cfg["dt"],
            "sample": {"cfg": cfg, "final_weights_fast": np.asarray(pf["weights"]).tolist(), "final_weights_slow": np.asarray(ps["weights"]).tolist()}}


def _exec_exhaustive(cfg, ctx):
    import jax.numpy as jnp
    from scipy.special import erf

    sf = lab.build_cpmc_system(spec_of(cfg, "propagator_cpmc"))
    ss = lab.build_cpmc_system(spec_of(cfg, "propagator_cpmc_slow"))
    m = make_model(cfg, sf)
    ok_one_body = check_one_body(ctx, cfg, sf, m)
    n, nw = cfg["n_sites"], cfg["n_walkers"]
    w0 = start_walkers(cfg, sf, same=True)
    pf = sf.plain.init_prop_data(sf.trial, sf.wave_data, dict(sf.ham_data), [jnp.array(w0[0]), jnp.array(w0[1])])
    # optional short walk so that the state is one a walk reaches (same numbers for all copies)
    rs = np.random.RandomState(cfg["jax_seed"])
    for _ in range(cfg["pre_steps"]):
        g = np.repeat(rs.normal(size=(1, n)), nw, axis=0)
        pf = _propagate(sf, sf.plain, pf, g)
    pf["weights"] = jnp.ones(nw)
    ov = np.asarray(pf["overlaps"])
    if not (np.all(np.isfinite(ov)) and np.min(np.abs(ov)) > 1e-6 and np.all(ov.real > 0)):
        ctx.count("precondition_start_overlap")
        return {"digest": None, "nontrivial": False}
    e_shift = cfg["e_shift"] + float(np.asarray(pf["e_estimate"]))
    pf["pop_control_ene_shift"] = jnp.array(e_shift)
    up0, dn0 = np.asarray(pf["walkers"][0]).real[0], np.asarray(pf["walkers"][1]).real[0]
    ov0 = float(ov[0].real)
    # 1. the model's own exhaustive sum equals the exact target (validation of the oracle)
    target = m.exact_target(up0, dn0, ov0, e_shift)
    tn = float(np.linalg.norm(target))
    acc_model, clipped = m.exhaustive_sum(up0, dn0, ov0, e_shift, "fast")
    if clipped:
        ctx.count("exhaustive_skipped_constraint_active")
        return {"digest": None, "nontrivial": False}
    if not float(np.linalg.norm(acc_model - target)) <= 1e-10 * tn:
        from ..core import HarnessError

        raise HarnessError(f"CPMC model failed its exhaustive-sum validation: rel {float(np.linalg.norm(acc_model - target)) / tn}")
    ctx.probe("model_exhaustive_validated", 1)
    if not ok_one_body:
        return {"digest": None, "nontrivial": False}
    # 2. the same sum with the code's outputs
    configs = list(itertools.product((0, 1), repeat=n))
    uni = np.array([m.forced_uniforms(c) for c in configs])
    g = np.array([[cpmc_model.gaussian_for_uniform(u) for u in row] for row in uni])
    uni_seen = (erf(g / math.sqrt(2.0)) + 1.0) / 2.0
    ps = ss.plain.init_prop_data(ss.trial, ss.wave_data, dict(ss.ham_data), [jnp.array(np.asarray(pf["walkers"][0])), jnp.array(np.asarray(pf["walkers"][1]))])
    ps["pop_control_ene_shift"] = jnp.array(e_shift)
    res = {}
    for name, s_, p_ in (("fast", sf, pf), ("slow", ss, ps)):
        out = _propagate(s_, s_.plain, p_, g)
        upn, dnn = np.asarray(out["walkers"][0]).real, np.asarray(out["walkers"][1]).real
        ovn, wn = np.asarray(out["overlaps"]), np.asarray(out["weights"])
        acc = np.zeros(m.sec.dim, dtype=complex)
        site = f"propagator_cpmc{'_slow' if name == 'slow' else ''}.propagate"
        for j, c in enumerate(configs):
            r = m.step(up0, dn0, ov0, 1.0, uni_seen[j], e_shift, name)
            if r["choices"] != list(c):
                continue  # a branch of (numerically) zero probability cannot be forced; it carries no weight in the sum
            if wn[j] == 0.0 and r["w"] == 0.0:
                continue
            acc += r["P"] * wn[j] * m.sec.det_state(upn[j], dnn[j]) / ovn[j]
        err = float(np.linalg.norm(acc - target)) / tn
        res[name] = err
        if not err <= 1e-9:
            _bad(ctx, "cpmc.sum_over_field_configurations_is_not_the_exact_propagator", site, cfg, rel_err=err, n_configs=len(configs))
    ctx.probe("exhaustive_sums", 1)
    ctx.probe("both_branches_taken", 1)
    ctx.count("field_configurations_forced", 2 * len(configs))
    return {"digest": arr_hash(np.array([res.get("fast", 0.0), res.get("slow", 0.0)]), target), "nontrivial": True,
            "state_keys": [f"exh-{cfg['lattice']}{n}-{cfg['nelec']}-{cfg['trial']}-{cfg['chol']}-U{cfg['u']}-dt{cfg['dt']}-pre{cfg['pre_steps']}"],
            "sim_steps": 2 * len(configs), "sim_time": 2 * len(configs) * cfg["dt"], "sample": {"cfg": cfg, "rel_err_code_sum_vs_exact": res}}


def _exec_pairs(cfg, ctx):
    import jax.numpy as jnp

    s = lab.build_cpmc_system(spec_of(cfg, "propagator_cpmc"))
    n, nw = cfg["n_sites"], cfg["n_walkers"]
    w0 = start_walkers(cfg, s)
    walkers = [jnp.array(np.asarray(w0[0]).real), jnp.array(np.asarray(w0[1]).real)]
    ov0 = np.asarray(s.trial.calc_overlap(walkers, s.wave_data))
    if not (np.all(np.isfinite(ov0)) and np.min(np.abs(ov0)) > 1e-4):
        ctx.count("precondition_start_overlap")
        return {"digest": None, "nontrivial": False}
    greens = s.trial.calc_full_green_vmap(walkers, s.wave_data)
    rs = np.random.RandomState(cfg["jax_seed"])
    site_r = f"{cfg['trial']}.calc_overlap_ratio"
    site_g = f"{cfg['trial']}.update_greens_function"
    rec = []
    npairs = 0
    for (si, i), (sj, j) in itertools.product(itertools.product((0, 1), range(n)), repeat=2):
        if si == sj and i == j:
            continue
        consts = rs.uniform(-0.6, 1.5, size=2)
        idx = jnp.array([[si, i], [sj, j]])
        ratio = np.asarray(s.trial.calc_overlap_ratio_vmap(greens, idx, jnp.array(consts)))
        new = [np.array(walkers[0]), np.array(walkers[1])]
        new[si][:, i, :] *= 1.0 + consts[0]
        new[sj][:, j, :] *= 1.0 + consts[1]
        newj = [jnp.array(new[0]), jnp.array(new[1])]
        ov1 = np.asarray(s.trial.calc_overlap(newj, s.wave_data))
        want = ov1 / ov0
        trig = {"same_spin": bool(si == sj)}
        if not np.allclose(ratio, want, rtol=1e-8, atol=1e-10):
            _bad(ctx, "cpmc.fast_overlap_ratio_differs_from_scratch", site_r, cfg, pair=[[si, i], [sj, j]], fast=str(ratio.tolist()), scratch=str(want.tolist()), **trig)
        ok = np.abs(want) > 1e-3
        g_new = np.asarray(s.trial.update_greens_function_vmap(greens, jnp.array(ratio), idx, jnp.array(np.repeat(consts[None], nw, axis=0))))
        g_ref = np.asarray(s.trial.calc_full_green_vmap(newj, s.wave_data))
        if np.any(ok) and not np.allclose(g_new[ok], g_ref[ok], rtol=1e-7, atol=1e-8):
            _bad(ctx, "cpmc.fast_greens_function_update_differs_from_scratch", site_g, cfg, pair=[[si, i], [sj, j]], max_abs_diff=float(np.max(np.abs(g_new[ok] - g_ref[ok]))), **trig)
        npairs += 1
        if si == sj:
            ctx.probe("same_spin_pairs", 1)
        rec.append(arr_hash(ratio))
    ctx.probe("pairs_checked", npairs)
    ctx.count("pairs_checked", npairs)
    return {"digest": arr_hash(np.frombuffer("|".join(rec).encode(), np.uint8)), "nontrivial": True,
            "state_keys": [f"pairs-{cfg['lattice']}{n}-{cfg['nelec']}-{cfg['trial']}"], "sim_steps": npairs, "sim_time": 0.0,
            "sample": {"cfg": cfg, "pairs": npairs}}


def _exec_nn(cfg, ctx):
    import jax.numpy as jnp
    from jax import random as jr

    sf = lab.build_cpmc_system(spec_of(cfg, "propagator_cpmc_nn"))
    ss = lab.build_cpmc_system(spec_of(cfg, "propagator_cpmc_nn_slow"))
    w0 = start_walkers(cfg, sf)
    n, nw = cfg["n_sites"], cfg["n_walkers"]
    pf = sf.plain.init_prop_data(sf.trial, sf.wave_data, dict(sf.ham_data), [jnp.array(w0[0]), jnp.array(w0[1])])
    ps = ss.plain.init_prop_data(ss.trial, ss.wave_data, dict(ss.ham_data), [jnp.array(w0[0]), jnp.array(w0[1])])
    ov = np.asarray(pf["overlaps"])
    if not (np.all(np.isfinite(ov)) and np.min(np.abs(ov)) > 1e-4 and np.all(ov.real > 0)):
        ctx.count("precondition_start_overlap")
        return {"digest": None, "nontrivial": False}
    key = jr.PRNGKey(cfg["jax_seed"])
    pf["key"], ps["key"] = key, key
    rec = []
    ncmp = 0
    site = "propagator_cpmc_nn vs propagator_cpmc_nn_slow"
    for k in range(cfg["n_steps"]):
        g = np.zeros((nw, n))
        pf = _propagate(sf, sf.plain, pf, g)
        ps = _propagate(ss, ss.plain, ps, g)
        wf, ws = np.asarray(pf["weights"]), np.asarray(ps["weights"])
        safe = (np.abs(wf - 1e-8) > 1e-12) & (np.abs(wf - 100) > 1e-5) & np.isfinite(wf) & np.isfinite(ws)
        if not np.allclose(wf[safe], ws[safe], rtol=1e-8, atol=1e-13):
            _bad(ctx, "cpmc.fast_and_slow_nn_propagators_disagree", site, cfg, step=k, what="weights", fast=wf.tolist(), slow=ws.tolist())
        live = (wf > 0) & (ws > 0)
        for sp in (0, 1):
            if not np.allclose(np.asarray(pf["walkers"][sp])[live], np.asarray(ps["walkers"][sp])[live], rtol=1e-8, atol=1e-10):
                _bad(ctx, "cpmc.fast_and_slow_nn_propagators_disagree", site, cfg, step=k, what="walkers")
        if not np.allclose(np.asarray(pf["overlaps"])[live], np.asarray(ps["overlaps"])[live], rtol=1e-7, atol=1e-300):
            _bad(ctx, "cpmc.fast_and_slow_nn_propagators_disagree", site, cfg, step=k, what="overlaps",
                 fast=str(np.asarray(pf["overlaps"]).tolist()), slow=str(np.asarray(ps["overlaps"]).tolist()))
        check_cache(ctx, cfg, sf, pf, "propagator_cpmc_nn.propagate", f"after step {k}")
        ncmp += int(np.sum(live))
        rec.append(arr_hash(wf))
        if not np.any(live):
            break
    ctx.probe("nn_steps_compared", ncmp)
    ctx.count("nn_steps_compared", ncmp)
    return {"digest": arr_hash(np.frombuffer("|".join(rec).encode(), np.uint8)), "nontrivial": ncmp > 0,
            "state_keys": [f"nn-{cfg['lattice']}{n}-{cfg['nn_bonds']}-{cfg['nelec']}-{cfg['trial']}-U{cfg['u']}-V{cfg['u_1']}"], "sim_steps": cfg["n_steps"], "sim_time": cfg["n_steps"] * cfg["dt"],
            "sample": {"cfg": cfg, "final_weights_fast": np.asarray(pf["weights"]).tolist(), "final_weights_slow": np.asarray(ps["weights"]).tolist()}}


def shrink_candidates(cfg, decisions):
    if cfg["kind"] == "walk":
        st = cfg["steps"]
        for keep in (1, len(st) // 2, len(st) - 1):
            if 0 < keep < len(st):
                yield dict(cfg, steps=st[:keep]), decisions
        if any(x != "random" for x in st):
            yield dict(cfg, steps=["random"] * len(st)), decisions
    if cfg["kind"] == "nn" and cfg["n_steps"] > 1:
        yield dict(cfg, n_steps=cfg["n_steps"] - 1), decisions
    if cfg["kind"] == "exhaustive" and cfg["pre_steps"]:
        yield dict(cfg, pre_steps=0), decisions
    for k, v in (("stagger", 0.0), ("noise", 0.0), ("theta", 0.0), ("walker_noise", 0.02), ("e_shift", 0.0)):
        if cfg.get(k) != v:
            yield dict(cfg, **{k: v}), decisions
