"""C14 - walkers evolve independently; batching and storage format change nothing.

Three systems are driven in lock-step by ONE random stream through the real code:
  A  restricted walkers  + RHF trial + propagator_restricted
  B  unrestricted walkers (equal spin blocks) + UHF trial with the same orbitals + propagator_unrestricted
  P  a permuted (and possibly differently batched) copy of A
over generated operation histories (step / step with a field tail on one walker /
re-orthonormalise / local reconfiguration / measure / permute / re-batch), through the
sampler entry points, and through complete driver.afqmc runs on 1-3 simulated ranks.
After every operation the event records of the systems must agree."""
import random

import numpy as np

from .. import lab
from ..core import EventLog, arr_hash
from ..models import replay
from ..simmpi import SimMPIError
from ..world import Deadlock

ID = "C14"
NAME = "lockstep"
TITLE = "Walkers evolve independently; batching and storage format change nothing"

MENU = {"quick": 36, "thorough": 132}
TIERS = {
    "quick": dict(runs=36 * 12, budget_s=300, recheck=2, shrink_s=60.0, run_timeout_s=900),
    "thorough": dict(runs=132 * 120, budget_s=1200, recheck=6, shrink_s=180.0, run_timeout_s=1800),
}
RULE = (
    "run i uses compiled-menu entry i mod M (electron count, Cholesky count, walkers, dt, batch counts, kind: step machine / sampler / "
    "driver on 1-3 simulated ranks) and draws the closed-shell Hamiltonian, trial quality, JAX seed, the operation history "
    "(8-30 operations from {step, tail-step, QR, local SR, measure, permute, re-batch}) and the rank schedules from "
    "sha256(seed|C14|i). Non-trivial = history contains >= 2 steps and a non-identity permutation or a second system; "
    "distinct = distinct digest of the recorded per-operation outputs."
)
ASSUMPTIONS = [
    "restricted vs unrestricted comparison at 1e-8 relative (different but algebraically equal formulas), permutation/batch comparison at 1e-10",
    "reconfiguration is order dependent by design: after a local SR the permuted copy is re-synchronised (the statement excludes it from the permutation clause)",
    "driver samples are float32 casts: restricted vs unrestricted driver rows are compared at 1e-5 relative",
    "field tails are limited to x8 so that no walker overflows (overflow patterns may legitimately differ between the two storage formats)",
]
COMPONENTS = {
    "real": ["ad_afqmc.propagation.propagator_restricted/unrestricted (propagate, _apply_trotprop, QR, local SR)", "ad_afqmc.wavefunctions rhf/uhf (calc_overlap/force_bias/energy batching)",
             "ad_afqmc.sampling.sampler.propagate_phaseless(_ad_norot)", "ad_afqmc.driver.afqmc", "jax / XLA CPU"],
    "stub": ["mpi4py.MPI -> SimComm/SimWorld", "wall clock", "stdout"],
}
REQUIRED_PROBES = {"quick": ["permuted_steps", "rebatched_steps", "restricted_vs_unrestricted_steps", "driver_pairs", "sampler_pairs", "perm_kind_steps", "multislater_pair_runs", "independence_ops", "cpmc_independence_ops"],
                   "thorough": ["permuted_steps", "rebatched_steps", "restricted_vs_unrestricted_steps", "driver_pairs", "sampler_pairs", "tail_steps", "sr_ops"]}

OPS = ["step", "step", "step", "tail", "qr", "sr", "measure", "permute", "rebatch"]
PERM_OPS = OPS + ["independence", "independence"]


def menu_entry(k):
    r = random.Random(140000 + k)
    nw = r.choice([4, 6, 8])
    m = dict(
        nelec=r.choice([[1, 1], [2, 2], [2, 2]]), norb=4, nchol=r.choice([2, 3]), n_walkers=nw, dt=r.choice([0.01, 0.05, 0.1]),
        n_batch=r.choice([1, 2]), kind=["steps", "perm", "sampler", "driver", "steps", "perm"][k % 6],
    )
    if m["kind"] == "steps" and k % 12 == 4:
        # the same multi-Slater trial measured through its restricted and its unrestricted routines
        m["trial_kind"] = "multislater"
        m["nelec"] = r.choice([[1, 1], [2, 2]])
        m["nchol"] = 2
        m["n_walkers"] = 4
    if m["kind"] == "perm":
        # permutation / batch-count covariance for the other trials and walker layouts
        m["wt"] = r.choice(["unrestricted", "unrestricted", "restricted"])
        if m["wt"] == "restricted":
            m["trial"], m["nelec"] = "uhf", r.choice([[2, 1], [3, 1], [2, 2]])
        else:
            m["trial"], m["nelec"] = r.choice(["uhf", "noci", "ghf"]), r.choice([[2, 1], [2, 2], [1, 1], [3, 1]])
    if m["kind"] == "sampler":
        m.update(n_prop_steps=r.choice([1, 2, 3]), n_ene_blocks=r.choice([1, 2, 3]), n_sr_blocks=r.choice([1, 2]), entry=r.choice(["plain", "plain", "ad_norot"]))
    if m["kind"] == "driver":
        m.update(n_prop_steps=r.choice([1, 2, 3]), n_ene_blocks=r.choice([1, 2]), n_sr_blocks=r.choice([1, 2]), n_blocks=r.choice([2, 3]), R=r.choice([1, 2, 3]),
                 n_eql=1, n_ene_blocks_eql=1, n_sr_blocks_eql=r.choice([1, 2]), ad_mode=r.choice([None, None, "forward"]), orbital_rotation=False, do_sr=r.choice([True, False]))
    if m.get("trial_kind") != "multislater":
        lab.corner_override(m, k, 14)
    r9 = random.Random(140900 + k)
    if m["kind"] == "perm" and m.get("corner") is None and r9.random() < 0.55:
        # "every propagator": the constrained-path propagators draw their fields themselves (per walker position), so
        # permuting is not meaningful for them, but independence of the walkers is
        m = dict(kind="cpmc_indep", prop=["propagator_cpmc", "propagator_cpmc_nn", "propagator_cpmc_slow", "propagator_cpmc_continuous", "propagator_cpmc_nn_slow"][(k // 2) % 5],
                 trial=r9.choice(["uhf_cpmc", "ghf_cpmc"]), lattice=r9.choice(["chain", "chain", "grid2x2"]), nelec=r9.choice([[2, 1], [2, 2], [1, 1]]),
                 n_walkers=r9.choice([4, 6]), dt=r9.choice([0.01, 0.05]), norb=4, nchol=4, n_batch=1)
        m["n_sites"] = 4 if m["lattice"] == "grid2x2" else r9.choice([3, 4])
        if m["n_sites"] == 3 and m["nelec"] == [2, 2]:
            m["nelec"] = [2, 1]
    return m


def gen_cfg(seed, index, tier):
    m = dict(menu_entry(index % MENU[tier]))
    rng = random.Random(seed)
    m["menu"] = index % MENU[tier]
    m["ham_seed"] = rng.randrange(1, 2**31 - 1)
    m["strength"] = rng.choice([0.3, 0.6, 0.9])
    m["mix"] = rng.choice([0.0, 0.1, 0.3])
    m["jax_seed"] = rng.randrange(1, 2**20)
    # the library accepts a one-body matrix that is not exactly symmetric and symmetrises it
    m["h1_antisym"] = rng.choice([0.0, 0.0, 0.05]) if m.get("trial_kind") != "multislater" else 0.0
    # a deep core-like one-body level (dt |h1| of order 1): the two propagators build their one-body half step separately
    m["core_level"] = random.Random(seed + 43).choice([0.0, 0.0, -30.0]) if m.get("trial_kind") != "multislater" else 0.0
    if m["core_level"]:
        m["dt"] = min(m["dt"], 0.05)
    if m["kind"] == "perm":
        m["spin_dep"] = m["wt"] == "unrestricted" and rng.random() < 0.6 and m.get("trial") != "rhf"
    if m["kind"] in ("steps", "perm"):
        ops = []
        nw = m["n_walkers"]
        for _ in range(rng.randint(8, 30) if m.get("trial_kind") != "multislater" else rng.randint(5, 12)):
            o = rng.choice(PERM_OPS if m["kind"] == "perm" else OPS)
            if o == "independence":
                ops.append(["independence", rng.randrange(nw), rng.choice([0.37, 1.9, 0.0])])
                continue
            if o == "tail":
                ops.append(["tail", rng.randrange(nw), rng.choice([3.0, 5.0, 8.0])])
            elif o == "permute":
                p = list(range(nw))
                rng.shuffle(p)
                ops.append(["permute", p])
            elif o == "rebatch":
                ops.append(["rebatch", rng.choice([b for b in (1, 2, nw) if nw % b == 0])])
            else:
                ops.append([o])
            if m["core_level"] and o in ("step", "tail"):
                # exp(-dt h1/2) stretches the core direction by e^(15 dt) per step: re-orthonormalise as often as a
                # real block does, otherwise determinants lose (condition number x eps) and two correct programs differ
                ops.append(["qr"])
        m["ops"] = ops
    if m["kind"] == "cpmc_indep":
        r9 = random.Random(seed + 149)
        m.update(u=r9.choice([2.0, 4.0, 8.0]), u_1=r9.choice([0.5, 1.0]), stagger=r9.choice([0.0, 0.3, 1.0]), noise=r9.choice([0.0, 0.3]), theta=r9.choice([0.0, 0.4, 0.785]),
                 chol="hubbard", n_warm=r9.choice([1, 2, 3]), rounds=[[r9.randrange(m["n_walkers"]), r9.choice([0.37, 1.9, 0.0])] for _ in range(r9.choice([2, 3, 4]))])
    if m["kind"] == "driver":
        for key in ("sched_a", "sched_b"):
            m[key] = {"policy": rng.choice(["random", "sticky", "straggler", "reverse"]), "straggler": rng.randrange(3), "p_rendezvous": rng.choice([0.0, 0.5, 1.0]), "p_clock_jump": 0.0}
    return m


def group_of(cfg):
    return f"m{cfg['menu']:03d}"


def group_of_index(seed, index, tier):
    return f"m{index % MENU[tier]:03d}"


def _spec(cfg, wt, n_batch=None):
    return dict(norb=cfg["norb"], nelec=cfg["nelec"], nchol=cfg["nchol"], wt=wt, trial="rhf" if wt == "restricted" else "uhf",
                n_walkers=cfg["n_walkers"], n_batch=n_batch or cfg["n_batch"], dt=cfg["dt"], n_exp_terms=6,
                ham_seed=cfg["ham_seed"], strength=cfg["strength"], mix=cfg["mix"], spin_dep=False, core_level=cfg.get("core_level", 0.0))


def build_pair_multislater(cfg, n_batch=None):
    """A and B share ONE multi-Slater trial (random CI vector over the whole sector, closed-shell
    reference, excitation cut-off = largest rank present): A stores the population as w
    (restricted routines of the trial), B as [w, w] (unrestricted routines)."""
    import jax.numpy as jnp

    from ad_afqmc import hamiltonian, pyscf_interface, wavefunctions

    from ..models import fock

    nb = n_batch or cfg["n_batch"]
    norb, nelec = cfg["norb"], tuple(cfg["nelec"])
    rs = np.random.RandomState(cfg["ham_seed"] % (2**32 - 1))
    ham_data = lab.gen_hamiltonian(rs, norb, cfg["nchol"], cfg["strength"], False)
    sec = fock.Sector(norb, nelec)
    vec = rs.normal(size=sec.dim) * 0.25
    closed = [k for k in range(sec.dim) if sec.index_to_occ(k)[0] == sec.index_to_occ(k)[1]]
    ref = closed[rs.randint(len(closed))]
    vec[ref] = 1.0
    order = [ref] + [k for k in range(sec.dim) if k != ref]
    state = {tuple(map(tuple, sec.index_to_occ(k))): float(vec[k]) for k in order}
    maxex = 2 * min(nelec[0], norb - nelec[0])
    Acre, Ades, Bcre, Bdes, coeff, ref_det = pyscf_interface.get_excitations(state=state, max_excitation=maxex)
    out = []
    for wt in ("restricted", "unrestricted"):
        s = lab.System()
        s.ham = hamiltonian.hamiltonian(norb)
        s.trial = wavefunctions.multislater(norb, nelec, max_excitation=maxex, n_batch=nb)
        s.wave_data = {"Acre": Acre, "Ades": Ades, "Bcre": Bcre, "Bdes": Bdes, "coeff": coeff, "ref_det": ref_det}
        s.wave_data["rdm1"] = jnp.array(s.trial.get_rdm1(s.wave_data))
        base = "propagator_restricted" if wt == "restricted" else "propagator_unrestricted"
        s.plain = lab.make_propagator(base, harness=False, dt=cfg["dt"], n_walkers=cfg["n_walkers"], n_batch=nb)
        s.prop = s.plain
        s.ham_data_raw = dict(ham_data)
        hd = s.ham.build_measurement_intermediates(dict(ham_data), s.trial, s.wave_data)
        s.ham_data = s.ham.build_propagation_intermediates(hd, s.plain, s.trial, s.wave_data)
        out.append(s)
    return out[0], out[1]


def build_pair(cfg, n_batch=None):
    """A (restricted/RHF) and B (unrestricted/UHF with the same orbitals)."""
    import jax.numpy as jnp

    if cfg.get("trial_kind") == "multislater":
        return build_pair_multislater(cfg, n_batch)

    a = lab.build_system(_spec(cfg, "restricted", n_batch), harness=False)
    b = lab.build_system(_spec(cfg, "unrestricted", n_batch), harness=False)
    c = a.wave_data["mo_coeff"]
    b.wave_data = {"mo_coeff": [c, c], "rdm1": jnp.array(a.wave_data["rdm1"])}
    if cfg.get("h1_antisym"):
        rs = np.random.RandomState((cfg["ham_seed"] + 31) % (2**32 - 1))
        k = rs.normal(size=(cfg["norb"], cfg["norb"]))
        anti = cfg["h1_antisym"] * (k - k.T)
        for s_ in (a, b):
            h1 = np.asarray(s_.ham_data_raw["h1"])
            s_.ham_data_raw = dict(s_.ham_data_raw)
            s_.ham_data_raw["h1"] = jnp.array(h1 + anti[None])
    for s_ in (a, b):
        hd = s_.ham.build_measurement_intermediates(dict(s_.ham_data_raw), s_.trial, s_.wave_data)
        s_.ham_data = s_.ham.build_propagation_intermediates(hd, s_.prop, s_.trial, s_.wave_data)
    return a, b


def _bad(ctx, klass, site, cfg, **d):
    d["trigger"] = {"kind": cfg["kind"]}
    d["menu"] = cfg["menu"]
    ctx.violation(klass, site, d)


def _close(x, y, rtol, atol=0.0):
    x, y = np.asarray(x), np.asarray(y)
    if x.shape != y.shape:
        return False
    scale = float(np.max(np.abs(y[np.isfinite(y)]))) if np.any(np.isfinite(y)) else 1.0
    return np.allclose(x, y, rtol=rtol, atol=atol + rtol * scale, equal_nan=True)


def cmp_ab(ctx, cfg, opname, pa, pb, extra=None):
    """restricted vs unrestricted record of one operation.  Walkers that carry no weight
    (killed by the constraint, or an extinct population) are outside the statement: they
    keep being propagated without ever being measured, and tiny differences between the
    two storage formats grow without bound on them."""
    site = "propagator_restricted vs propagator_unrestricted"
    if not _close(pa["weights"], pb["weights"], 1e-8, 1e-12):
        _bad(ctx, "lockstep.restricted_unrestricted_weights_differ", site, cfg, op=opname, a=np.asarray(pa["weights"]).tolist(), b=np.asarray(pb["weights"]).tolist())
    live = (np.asarray(pa["weights"]) > 0) & (np.asarray(pb["weights"]) > 0)
    if not np.any(live):
        ctx.count("population_extinct")
        return False
    if not _close(np.asarray(pa["overlaps"])[live], np.asarray(pb["overlaps"])[live], 1e-8):
        _bad(ctx, "lockstep.restricted_unrestricted_overlaps_differ", site, cfg, op=opname, a=str(np.asarray(pa["overlaps"]).tolist()), b=str(np.asarray(pb["overlaps"]).tolist()))
    wa = np.asarray(pa["walkers"])[live]
    for s in (0, 1):
        wb = np.asarray(pb["walkers"][s])[live]
        if not _close(wb, wa, 1e-8):
            _bad(ctx, "lockstep.restricted_unrestricted_walkers_differ", site, cfg, op=opname, spin=s, max_abs_diff=float(np.nanmax(np.abs(wb - wa))))
            break
    if not _close(pa["pop_control_ene_shift"], pb["pop_control_ene_shift"], 1e-8, 1e-10):
        _bad(ctx, "lockstep.restricted_unrestricted_shift_differs", site, cfg, op=opname, a=float(pa["pop_control_ene_shift"]), b=float(pb["pop_control_ene_shift"]))
    return True


def cmp_ap(ctx, cfg, opname, pa, pp, perm, nb_p):
    """A vs its permuted / re-batched copy."""
    site = "propagator_restricted.propagate (permutation / batch count)"
    klass = "lockstep.output_not_permutation_covariant" if perm != sorted(perm) else "lockstep.output_depends_on_batch_count"
    idx = np.array(perm)
    if not _close(np.asarray(pp["weights"]), np.asarray(pa["weights"])[idx], 1e-10, 1e-13):
        _bad(ctx, klass, site, cfg, op=opname, key="weights", perm=perm, n_batch_copy=nb_p)
        return
    live = np.asarray(pp["weights"]) > 0  # walkers without weight are outside the statement (see cmp_ab)
    for key, rtol in (("overlaps", 1e-10), ("walkers", 1e-10)):
        if np.any(live) and not _close(np.asarray(pp[key])[live], np.asarray(pa[key])[idx][live], rtol, 1e-13):
            _bad(ctx, klass, site, cfg, op=opname, key=key, perm=perm, n_batch_copy=nb_p)
            return
    if not _close(pp["pop_control_ene_shift"], pa["pop_control_ene_shift"], 1e-11, 1e-11):
        _bad(ctx, "lockstep.shift_not_symmetric_in_weights", site, cfg, op=opname, a=float(pa["pop_control_ene_shift"]), p=float(pp["pop_control_ene_shift"]), perm=perm)


def execute(cfg, ctx):
    if cfg["kind"] == "steps":
        return _exec_steps(cfg, ctx)
    if cfg["kind"] == "perm":
        return _exec_perm(cfg, ctx)
    if cfg["kind"] == "sampler":
        return _exec_sampler(cfg, ctx)
    if cfg["kind"] == "cpmc_indep":
        return _exec_cpmc_indep(cfg, ctx)
    return _exec_driver(cfg, ctx)


def _exec_cpmc_indep(cfg, ctx):
    """Constrained-path propagators: replacing one walker (matrix, weight, stored overlap and Green's function) must leave
    every other walker's output of the next step bit-identical (the only coupling is the scalar shift, which is
    updated after the weights)."""
    import jax.numpy as jnp
    from jax import random as jr

    spec = {k: cfg[k] for k in ("lattice", "n_sites", "nelec", "u", "u_1", "dt", "n_walkers", "prop", "trial", "chol", "stagger", "theta", "noise", "ham_seed")}
    s = lab.build_cpmc_system(spec)
    nw = cfg["n_walkers"]
    pd = s.prop.init_prop_data(s.trial, s.wave_data, s.ham_data, s.init_walkers)
    pd["key"] = jr.PRNGKey(cfg["jax_seed"])
    rs = np.random.RandomState((cfg["ham_seed"] + 5) % (2**32 - 1))
    f = jnp.array(rs.normal(size=(nw, cfg["n_sites"])))
    site = f"{cfg['prop']} / {cfg['trial']} (independence of walkers)"
    for _ in range(cfg["n_warm"]):
        pd = s.prop.propagate(s.trial, s.ham_data, lab.copy_pd(pd), f, s.wave_data)
    rec = []
    n_ops = 0
    for k, (j, wj) in enumerate(cfg["rounds"]):
        w0 = np.asarray(pd["weights"])
        if not (np.all(np.isfinite(w0)) and float(np.sum(w0)) > 0):
            ctx.count("population_extinct")
            break
        p2 = lab.copy_pd(pd)
        wl = [np.array(pd["walkers"][0]), np.array(pd["walkers"][1])]
        for t_ in (0, 1):
            wl[t_][j] = wl[t_][(j + 1) % nw] + 0.2 * rs.normal(size=wl[t_][j].shape)
        p2["walkers"] = [jnp.array(wl[0]), jnp.array(wl[1])]
        w2 = np.array(w0)
        w2[j] = wj
        p2["weights"] = jnp.array(w2)
        p2["overlaps"] = s.trial.calc_overlap(p2["walkers"], s.wave_data)
        if "greens" in p2:
            p2["greens"] = s.trial.calc_full_green_vmap(p2["walkers"], s.wave_data)
        a = s.prop.propagate(s.trial, s.ham_data, lab.copy_pd(pd), f, s.wave_data)
        b = s.prop.propagate(s.trial, s.ham_data, p2, f, s.wave_data)
        oth = np.array([i for i in range(nw) if i != j and w0[i] > 0], dtype=int)
        if len(oth):
            for what, xa, xb in (("weights", np.asarray(a["weights"]), np.asarray(b["weights"])), ("overlaps", np.asarray(a["overlaps"]), np.asarray(b["overlaps"])),
                                 ("walkers_up", np.asarray(a["walkers"][0]), np.asarray(b["walkers"][0])), ("walkers_dn", np.asarray(a["walkers"][1]), np.asarray(b["walkers"][1]))):
                if not np.array_equal(xa[oth], xb[oth], equal_nan=True):
                    _bad(ctx, "lockstep.walker_depends_on_another_walker", site, cfg, op=k, operation="propagate", quantity=what, replaced_walker=int(j))
                    break
            n_ops += 1
        rec.append(arr_hash(np.asarray(a["weights"]), np.asarray(a["overlaps"])))
        pd = a
    ctx.probe("cpmc_independence_ops", n_ops)
    return {"digest": arr_hash(np.frombuffer("|".join(rec).encode(), np.uint8)), "nontrivial": n_ops > 0,
            "state_keys": [f"cpmc-indep-{cfg['prop']}-{cfg['trial']}-{cfg['lattice']}{cfg['n_sites']}-{cfg['nelec']}"],
            "sim_steps": n_ops * 2 * nw, "sim_time": n_ops * cfg["dt"], "sample": {"cfg": cfg}}


def _measure(s, pd):
    import jax

    key = ("meas", s.trial)
    if key not in _MEAS:
        t = s.trial
        _MEAS[key] = (jax.jit(lambda w, wd: t.calc_overlap(w, wd)), jax.jit(lambda w, hd, wd: t.calc_force_bias(w, hd, wd)), jax.jit(lambda w, hd, wd: t.calc_energy(w, hd, wd)))
    ov, fb, en = _MEAS[key]
    return np.asarray(ov(pd["walkers"], s.wave_data)), np.asarray(fb(pd["walkers"], s.ham_data, s.wave_data)), np.asarray(en(pd["walkers"], s.ham_data, s.wave_data))


_MEAS = {}


def _exec_steps(cfg, ctx):
    import jax.numpy as jnp
    from jax import random as jr

    nw, nchol = cfg["n_walkers"], cfg["nchol"]
    a, b = build_pair(cfg)
    copies = {cfg["n_batch"]: a}
    pa = lab.init_state(a, cfg["jax_seed"], harness=False)
    pb = lab.init_state(b, cfg["jax_seed"], harness=False)
    pp = lab.copy_pd(pa)
    perm = list(range(nw))
    nb_p = cfg["n_batch"]
    key = jr.PRNGKey(cfg["jax_seed"] + 17)
    rec = []
    nsteps = 0
    nontriv = False

    def sys_p():
        if nb_p not in copies:
            if cfg.get("trial_kind") == "multislater":
                copies[nb_p] = build_pair_multislater(cfg, nb_p)[0]
            else:
                copies[nb_p] = lab.build_system(_spec(cfg, "restricted", nb_p), harness=False)
            copies[nb_p].wave_data = a.wave_data
            copies[nb_p].ham_data = a.ham_data
        return copies[nb_p]

    if cfg.get("trial_kind") == "multislater":
        ctx.probe("multislater_pair_runs", 1)
    cmp_ab(ctx, cfg, "init", pa, pb)
    for k, op in enumerate(cfg["ops"]):
        name = op[0]
        if name in ("step", "tail"):
            key, sub = jr.split(key)
            f = np.array(jr.normal(sub, shape=(nw, nchol)))
            if name == "tail":
                f[op[1], :] *= op[2]
                ctx.probe("tail_steps", 1)
            fa = jnp.array(f)
            pa = a.plain.propagate(a.trial, a.ham_data, lab.copy_pd(pa), fa, a.wave_data)
            pb = b.plain.propagate(b.trial, b.ham_data, lab.copy_pd(pb), fa, b.wave_data)
            sp = sys_p()
            pp = sp.plain.propagate(sp.trial, sp.ham_data, lab.copy_pd(pp), jnp.array(f[np.array(perm)]), sp.wave_data)
            nsteps += 1
            ctx.probe("restricted_vs_unrestricted_steps", 1)
            if perm != list(range(nw)):
                ctx.probe("permuted_steps", 1)
                nontriv = True
            if nb_p != cfg["n_batch"]:
                ctx.probe("rebatched_steps", 1)
        elif name == "qr":
            pa = a.plain.orthonormalize_walkers(lab.copy_pd(pa))
            pb = b.plain.orthonormalize_walkers(lab.copy_pd(pb))
            pp = sys_p().plain.orthonormalize_walkers(lab.copy_pd(pp))
            for p_, s_ in ((pa, a), (pb, b), (pp, sys_p())):
                p_["overlaps"] = replay.public_calls(s_.trial)[0](p_["walkers"], s_.wave_data)
        elif name == "sr":
            pa = a.plain.stochastic_reconfiguration_local(lab.copy_pd(pa))
            pb = b.plain.stochastic_reconfiguration_local(lab.copy_pd(pb))
            for p_, s_ in ((pa, a), (pb, b)):
                p_["overlaps"] = replay.public_calls(s_.trial)[0](p_["walkers"], s_.wave_data)
            # order dependent by design: re-synchronise the permuted copy
            idx = np.array(perm)
            pp = lab.copy_pd(pa)
            pp["walkers"] = pa["walkers"][idx]
            pp["weights"] = pa["weights"][idx]
            pp["overlaps"] = pa["overlaps"][idx]
            ctx.probe("sr_ops", 1)
        elif name == "measure":
            oa, fa_, ea = _measure(a, pa)
            ob, fb_, eb = _measure(b, pb)
            op_, fp_, ep = _measure(sys_p(), pp)
            site = "wave_function.calc_overlap/calc_force_bias/calc_energy"
            # the AD-based multi-Slater trial gets its local energy from a finite difference (eps = 1e-4):
            # its two storage routes agree only to the finite-difference round-off
            etol = 1e-5 if cfg.get("trial_kind") == "multislater" else 1e-8
            for nm, x, y in (("overlap", oa, ob), ("force_bias", fa_, fb_), ("energy", ea, eb)):
                if not _close(x, y, etol if nm == "energy" else 1e-8, 1e-10):
                    _bad(ctx, "lockstep.restricted_unrestricted_measurement_differs", site, cfg, op=k, quantity=nm, a=str(x.tolist())[:300], b=str(y.tolist())[:300])
            idx = np.array(perm)
            for nm, x, y in (("overlap", op_, oa[idx]), ("force_bias", fp_, fa_[idx]), ("energy", ep, ea[idx])):
                if not _close(x, y, etol if nm == "energy" and etol > 1e-8 else 1e-10, 1e-12):
                    _bad(ctx, "lockstep.measurement_not_permutation_covariant" if perm != sorted(perm) else "lockstep.measurement_depends_on_batch_count",
                         site, cfg, op=k, quantity=nm, perm=perm, n_batch_copy=nb_p)
            rec.append(arr_hash(oa, fa_, ea))
            continue
        elif name == "permute":
            sigma = np.array(op[1])
            pp = lab.copy_pd(pp)
            pp["walkers"] = pp["walkers"][sigma]
            pp["weights"] = pp["weights"][sigma]
            pp["overlaps"] = pp["overlaps"][sigma]
            perm = [perm[j] for j in op[1]]
            continue
        elif name == "rebatch":
            nb_p = op[1]
            continue
        if not cmp_ab(ctx, cfg, f"{k}:{name}", pa, pb):
            break
        cmp_ap(ctx, cfg, f"{k}:{name}", pa, pp, perm, nb_p)
        rec.append(arr_hash(np.asarray(pa["weights"]), np.asarray(pa["walkers"]), np.asarray(pa["overlaps"])))
    ctx.count("operations", len(cfg["ops"]))
    ctx.count("steps", nsteps)
    return {
        "digest": arr_hash(np.frombuffer("|".join(rec).encode(), np.uint8)),
        "nontrivial": nsteps >= 2 and nontriv,
        "state_keys": [f"steps-{cfg['nelec']}-nb{cfg['n_batch']}-{'-'.join(sorted(set(o[0] for o in cfg['ops'])))}"],
        "sim_steps": 3 * nsteps, "sim_time": 3 * nsteps * cfg["dt"],
        "sample": {"cfg": cfg, "final_weights_restricted": np.asarray(pa["weights"]).tolist(), "final_weights_unrestricted": np.asarray(pb["weights"]).tolist(), "final_permutation": perm},
    }


def _perm_spec(cfg, n_batch):
    return dict(norb=cfg["norb"], nelec=cfg["nelec"], nchol=cfg["nchol"], wt=cfg["wt"], trial=cfg["trial"], n_walkers=cfg["n_walkers"], n_batch=n_batch,
                dt=cfg["dt"], n_exp_terms=6, ham_seed=cfg["ham_seed"], strength=cfg["strength"], mix=cfg["mix"], spin_dep=cfg.get("spin_dep", False), core_level=cfg.get("core_level", 0.0))


def _take(pd, idx, unres):
    out = lab.copy_pd(pd)
    out["walkers"] = [pd["walkers"][0][idx], pd["walkers"][1][idx]] if unres else pd["walkers"][idx]
    out["weights"] = pd["weights"][idx]
    out["overlaps"] = pd["overlaps"][idx]
    return out


def _exec_perm(cfg, ctx):
    """System X (any trial / walker layout) vs its permuted and re-batched copy P."""
    import jax.numpy as jnp
    from jax import random as jr

    nw, nchol = cfg["n_walkers"], cfg["nchol"]
    unres = cfg["wt"] == "unrestricted"
    x = lab.build_system(_perm_spec(cfg, cfg["n_batch"]), harness=False)
    copies = {cfg["n_batch"]: x}
    px = lab.init_state(x, cfg["jax_seed"], harness=False)
    pp = lab.copy_pd(px)
    perm, nb_p = list(range(nw)), cfg["n_batch"]
    key = jr.PRNGKey(cfg["jax_seed"] + 17)
    site = f"{type(x.plain).__name__}.propagate / {cfg['trial']} (permutation / batch count)"
    rec, nsteps, nontriv = [], 0, False

    def sys_p():
        if nb_p not in copies:
            c = lab.build_system(_perm_spec(cfg, nb_p), harness=False)
            c.wave_data, c.ham_data = x.wave_data, x.ham_data
            copies[nb_p] = c
        return copies[nb_p]

    def walk_arrays(pd):
        return [np.asarray(pd["walkers"][0]), np.asarray(pd["walkers"][1])] if unres else [np.asarray(pd["walkers"])]

    def compare(opname):
        idx = np.array(perm)
        klass = "lockstep.output_not_permutation_covariant" if perm != sorted(perm) else "lockstep.output_depends_on_batch_count"
        if not _close(np.asarray(pp["weights"]), np.asarray(px["weights"])[idx], 1e-10, 1e-13):
            _bad(ctx, klass, site, cfg, op=opname, key="weights", perm=perm, n_batch_copy=nb_p)
            return
        live = np.asarray(pp["weights"]) > 0
        if np.any(live):
            if not _close(np.asarray(pp["overlaps"])[live], np.asarray(px["overlaps"])[idx][live], 1e-10, 1e-300):
                _bad(ctx, klass, site, cfg, op=opname, key="overlaps", perm=perm, n_batch_copy=nb_p)
                return
            for a, b in zip(walk_arrays(pp), walk_arrays(px)):
                if not _close(a[live], b[idx][live], 1e-10, 1e-13):
                    _bad(ctx, klass, site, cfg, op=opname, key="walkers", perm=perm, n_batch_copy=nb_p)
                    return
        if not _close(pp["pop_control_ene_shift"], px["pop_control_ene_shift"], 1e-11, 1e-11):
            _bad(ctx, "lockstep.shift_not_symmetric_in_weights", site, cfg, op=opname, perm=perm)

    for k, op in enumerate(cfg["ops"]):
        name = op[0]
        if float(np.sum(np.asarray(px["weights"]))) <= 0:
            ctx.count("population_extinct")
            break
        if name in ("step", "tail"):
            key, sub = jr.split(key)
            f = np.array(jr.normal(sub, shape=(nw, nchol)))
            if name == "tail":
                f[op[1], :] *= op[2]
                ctx.probe("tail_steps", 1)
            px = x.plain.propagate(x.trial, x.ham_data, lab.copy_pd(px), jnp.array(f), x.wave_data)
            sp = sys_p()
            pp = sp.plain.propagate(sp.trial, sp.ham_data, lab.copy_pd(pp), jnp.array(f[np.array(perm)]), sp.wave_data)
            nsteps += 1
            if perm != list(range(nw)):
                ctx.probe("permuted_steps", 1)
                nontriv = True
            if nb_p != cfg["n_batch"]:
                ctx.probe("rebatched_steps", 1)
            ctx.probe("perm_kind_steps", 1)
        elif name == "qr":
            px = x.plain.orthonormalize_walkers(lab.copy_pd(px))
            pp = sys_p().plain.orthonormalize_walkers(lab.copy_pd(pp))
            px["overlaps"] = replay.public_calls(x.trial)[0](px["walkers"], x.wave_data)
            pp["overlaps"] = replay.public_calls(sys_p().trial)[0](pp["walkers"], x.wave_data)
        elif name == "sr":
            px = x.plain.stochastic_reconfiguration_local(lab.copy_pd(px))
            px["overlaps"] = replay.public_calls(x.trial)[0](px["walkers"], x.wave_data)
            pp = _take(px, np.array(perm), unres)  # order dependent by design: re-synchronise
            ctx.probe("sr_ops", 1)
        elif name == "measure":
            ox, fx, ex = _measure(x, px)
            op_, fp_, ep = _measure(sys_p(), pp)
            idx = np.array(perm)
            for nm, a, b in (("overlap", op_, ox[idx]), ("force_bias", fp_, fx[idx]), ("energy", ep, ex[idx])):
                live = np.asarray(pp["weights"]) > 0
                if np.any(live) and not _close(a[live], b[live], 1e-9, 1e-11):
                    _bad(ctx, "lockstep.measurement_not_permutation_covariant" if perm != sorted(perm) else "lockstep.measurement_depends_on_batch_count",
                         f"wave_function.calc_* / {cfg['trial']}", cfg, op=k, quantity=nm, perm=perm, n_batch_copy=nb_p)
            rec.append(arr_hash(ox, fx, ex))
            continue
        elif name == "independence":
            # replace ONE walker (matrix, weight, overlap) and apply the same operation to the original and
            # the modified population: every other walker must come out bit-for-bit comparable
            j, wj = op[1], op[2]
            key, sub = jr.split(key)
            f = jnp.array(np.array(jr.normal(sub, shape=(nw, nchol))))
            rsn = np.random.RandomState((cfg["ham_seed"] + 7 * k) % (2**32 - 1))
            p2 = lab.copy_pd(px)
            if unres:
                wl = [np.array(px["walkers"][0]), np.array(px["walkers"][1])]
                for t_ in (0, 1):
                    wl[t_][j] = wl[t_][(j + 1) % nw] + 0.3 * (rsn.normal(size=wl[t_][j].shape) + 1j * rsn.normal(size=wl[t_][j].shape))
                p2["walkers"] = [jnp.array(wl[0]), jnp.array(wl[1])]
            else:
                wl = np.array(px["walkers"])
                wl[j] = wl[(j + 1) % nw] + 0.3 * (rsn.normal(size=wl[j].shape) + 1j * rsn.normal(size=wl[j].shape))
                p2["walkers"] = jnp.array(wl)
            w2 = np.array(px["weights"])
            w2[j] = wj
            p2["weights"] = jnp.array(w2)
            p2["overlaps"] = replay.public_calls(x.trial)[0](p2["walkers"], x.wave_data)
            others = np.array([i for i in range(nw) if i != j], dtype=int)
            live = np.asarray(px["weights"])[others] > 0
            sel = others[live]
            site_i = f"{type(x.plain).__name__} / {cfg['trial']} (independence of walkers)"

            def same(a, b, what, opname):
                if sel.size and not _close(np.asarray(a)[sel], np.asarray(b)[sel], 1e-11, 1e-13):
                    _bad(ctx, "lockstep.walker_depends_on_another_walker", site_i, cfg, op=k, operation=opname, quantity=what, replaced_walker=j)
                    return False
                return True

            o1 = x.plain.propagate(x.trial, x.ham_data, lab.copy_pd(px), f, x.wave_data)
            o2 = x.plain.propagate(x.trial, x.ham_data, lab.copy_pd(p2), f, x.wave_data)
            ok = same(o1["weights"], o2["weights"], "weights", "propagate") and same(o1["overlaps"], o2["overlaps"], "overlaps", "propagate")
            for a, b in zip(walk_arrays(o1), walk_arrays(o2)):
                ok = ok and same(a, b, "walkers", "propagate")
            if unres and ok:
                f1 = x.plain.propagate_free(x.trial, x.ham_data, lab.copy_pd(px), f, x.wave_data)
                f2 = x.plain.propagate_free(x.trial, x.ham_data, lab.copy_pd(p2), f, x.wave_data)
                ok = same(f1["norms"], f2["norms"], "norms", "propagate_free") and same(f1["overlaps"], f2["overlaps"], "overlaps", "propagate_free")
                for a, b in zip(walk_arrays(f1), walk_arrays(f2)):
                    ok = ok and same(a, b, "walkers", "propagate_free")
            if ok:
                m1, m2 = _measure(x, px), _measure(x, p2)
                for nm, a, b in zip(("overlap", "force_bias", "energy"), m1, m2):
                    same(a, b, nm, "measurement")
            ctx.probe("independence_ops", 1)
            continue
        elif name == "permute":
            pp = _take(pp, np.array(op[1]), unres)
            perm = [perm[j] for j in op[1]]
            continue
        elif name == "rebatch":
            nb_p = op[1]
            continue
        compare(f"{k}:{name}")
        rec.append(arr_hash(np.asarray(px["weights"]), np.asarray(px["overlaps"])))
    ctx.count("operations", len(cfg["ops"]))
    ctx.count("steps", nsteps)
    return {"digest": arr_hash(np.frombuffer("|".join(rec).encode(), np.uint8)), "nontrivial": nsteps >= 2 and nontriv,
            "state_keys": [f"perm-{cfg['wt']}-{cfg['trial']}-{cfg['nelec']}-nb{cfg['n_batch']}"],
            "sim_steps": 2 * nsteps, "sim_time": 2 * nsteps * cfg["dt"],
            "sample": {"cfg": cfg, "final_weights": np.asarray(px["weights"]).tolist(), "final_permutation": perm}}


def _exec_sampler(cfg, ctx):
    from ad_afqmc import sampling

    a, b = build_pair(cfg)
    smp = sampling.sampler(cfg["n_prop_steps"], cfg["n_ene_blocks"], cfg["n_sr_blocks"], 1)
    entry = cfg["entry"]
    mode = None if entry == "plain" else "forward"
    pa = lab.init_state(a, cfg["jax_seed"], harness=False)
    pb = lab.init_state(b, cfg["jax_seed"], harness=False)
    rec = []
    site = "sampler.propagate_phaseless" + ("" if entry == "plain" else "_" + entry)
    for call in range(2):
        ea, da, pa = lab.call_entry(a, smp, entry, mode, pa, prop=a.plain)
        eb, db, pb = lab.call_entry(b, smp, entry, mode, pb, prop=b.plain)
        if not _close(ea, eb, 1e-8, 1e-10):
            _bad(ctx, "lockstep.restricted_unrestricted_block_energy_differs", site, cfg, call=call, a=float(ea), b=float(eb))
        if not cmp_ab(ctx, cfg, f"sampler call {call}", pa, pb):
            break
        if da is not None and np.isfinite(float(da)) and np.isfinite(float(db)) and not _close(da, db, 1e-6, 1e-8):
            _bad(ctx, "lockstep.restricted_unrestricted_derivative_differs", site, cfg, call=call, a=float(da), b=float(db))
        rec.append(arr_hash(np.asarray(ea), np.asarray(pa["weights"])))
        pa = lab.driver_glue(a, pa, ea, prop=a.plain)
        pb = lab.driver_glue(b, pb, eb, prop=b.plain)
    ctx.probe("sampler_pairs", 1)
    n = 2 * cfg["n_prop_steps"] * cfg["n_ene_blocks"] * cfg["n_sr_blocks"]
    return {"digest": arr_hash(np.frombuffer("|".join(rec).encode(), np.uint8)), "nontrivial": True,
            "state_keys": [f"sampler-{entry}-{cfg['nelec']}-{cfg['n_prop_steps']}{cfg['n_ene_blocks']}{cfg['n_sr_blocks']}"],
            "sim_steps": 2 * n, "sim_time": 2 * n * cfg["dt"],
            "sample": {"cfg": cfg, "energy_restricted": float(ea), "energy_unrestricted": float(eb)}}


def _exec_driver(cfg, ctx):
    from ad_afqmc import sampling

    a, b = build_pair(cfg)
    smp = sampling.sampler(cfg["n_prop_steps"], cfg["n_ene_blocks"], cfg["n_sr_blocks"], cfg["n_blocks"])
    opts = lab.default_options(seed=cfg["jax_seed"], ad_mode=cfg["ad_mode"], n_ene_blocks_eql=cfg["n_ene_blocks_eql"], n_sr_blocks_eql=cfg["n_sr_blocks_eql"],
                               n_eql=cfg["n_eql"], orbital_rotation=cfg["orbital_rotation"], do_sr=cfg["do_sr"], save_walkers=False)
    site = "driver.afqmc (restricted vs unrestricted walkers)"
    outs = []
    for s, sched in ((a, cfg["sched_a"]), (b, cfg["sched_b"])):
        try:
            outs.append(lab.run_driver_world(s, smp, opts, cfg["R"], ctx.decider, sched=sched, log=EventLog(), prop=s.plain))
        except (Deadlock, SimMPIError) as e:
            _bad(ctx, "lockstep.driver_failed", site, cfg, error=str(e))
            return {"digest": None, "nontrivial": False}
    ra = lab.parse_samples(outs[0]["files"].get("samples_raw.dat", b""))
    rb = lab.parse_samples(outs[1]["files"].get("samples_raw.dat", b""))
    if ra.shape != rb.shape or not np.allclose(ra[:, :2], rb[:, :2], rtol=1e-5, atol=1e-6, equal_nan=True):
        _bad(ctx, "lockstep.restricted_unrestricted_driver_samples_differ", site, cfg, restricted=ra.tolist(), unrestricted=rb.tolist())
    ea, eb = outs[0]["returns"][0][0], outs[1]["returns"][0][0]
    if ea is not None and eb is not None and not (np.isnan(ea) and np.isnan(eb)) and not abs(ea - eb) <= 1e-5 * max(1.0, abs(ea)):
        _bad(ctx, "lockstep.restricted_unrestricted_driver_energy_differs", site, cfg, restricted=float(ea), unrestricted=float(eb))
    ctx.probe("driver_pairs", 1)
    for k in ("eager", "rendezvous", "collectives", "sched_decisions"):
        ctx.count(k, sum(o["world"].stats[k] for o in outs))
    n = 50 * cfg["n_eql"] * cfg["n_sr_blocks_eql"] + cfg["n_blocks"] * cfg["n_prop_steps"] * cfg["n_ene_blocks"] * cfg["n_sr_blocks"]
    return {"digest": arr_hash(ra), "nontrivial": True,
            "sched_key": arr_hash(np.array(outs[0]["world"].sched_trace + [-1] + outs[1]["world"].sched_trace, dtype=np.int64)),
            "state_keys": [f"driver-R{cfg['R']}-{cfg['ad_mode']}-sr{int(cfg['do_sr'])}-{cfg['nelec']}"],
            "sim_steps": 2 * n * cfg["R"], "sim_time": 2 * n * cfg["R"] * cfg["dt"],
            "sample": {"cfg": cfg, "samples_restricted": ra.tolist()[:3], "samples_unrestricted": rb.tolist()[:3]}}


def shrink_candidates(cfg, decisions):
    from ..shrink import decision_candidates, drop_each

    if cfg["kind"] == "steps":
        for ops in drop_each(cfg["ops"], max_candidates=40):
            if ops:
                yield dict(cfg, ops=ops), decisions
        for i, o in enumerate(cfg["ops"]):
            if o[0] == "tail":
                ops = list(cfg["ops"])
                ops[i] = ["step"]
                yield dict(cfg, ops=ops), decisions
    for k, v in (("mix", 0.0), ("strength", 0.3)):
        if cfg.get(k) != v:
            yield dict(cfg, **{k: v}), decisions
    if cfg["kind"] == "driver":
        for d in decision_candidates(decisions):
            yield cfg, d
