"""C05 - free projection: exact norm bookkeeping, field average exp(-dt (H - ene0)).

  history  1-20 consecutive real `propagate_free` steps (Gaussian / tail / huge fields);
           after every step, per walker: accumulated norm x orthonormal walker equals the
           model's un-normalised product of propagators (Fock vectors), stored overlap =
           overlap of that un-normalised state, normed overlap = overlap of the
           orthonormal walker, columns orthonormal, local energy and force bias unchanged
           by the in-step QR, truncated vs exact exponential within the Taylor remainder;
  sampler  sampler.propagate_free: returned trajectory replayed through the model with
           the same jax.random stream; block energy / weight recomputed from the trajectory;
  driver   driver.fp_afqmc on 1-3 simulated ranks (pickled trajectories of every rank
           replayed the same way, under PRNG-chosen schedules);
  ladder   field average of (norm x walker) over Gauss-Hermite nodes pushed through the
           real step, residual against expm(-dt(H - ene0)) on the dt ladder (>= 3x).
"""
import math
import random

import numpy as np

from .. import lab
from ..core import EventLog, HarnessError, arr_hash
from ..models import fock, phaseless
from ..simmpi import SimMPIError
from ..world import Deadlock

ID = "C05"
NAME = "free_step"
TITLE = "Free-projection step averages to exp(-dt (H - ene0)) with exact norm bookkeeping"

MENU = {"quick": 48, "thorough": 192}
TIERS = {
    "quick": dict(runs=48 * 12, budget_s=300, recheck=2, shrink_s=60.0, run_timeout_s=900),
    "thorough": dict(runs=192 * 150, budget_s=1200, recheck=6, shrink_s=180.0, run_timeout_s=1800),
}
LADDER = [0.02, 0.01, 0.005, 0.0025]
STEP_DTS = [0.04, 0.02, 0.01, 0.005]
RULE = (
    "run i uses compiled-menu entry i mod M (electron counts with both spins present, 1-3 Cholesky matrices, dt from the ladder, "
    "n_exp_terms 4/6/10, walkers, kind history/sampler/driver/ladder, trial uhf/noci) and draws Hamiltonian (spin-dependent h1), "
    "mean-field rdm1 (own or arbitrary), ene0, start walkers, JAX seed, the step history (1-20 steps incl. tails and huge components) "
    "and rank schedules from sha256(seed|C05|i). Non-trivial = >= 2 consecutive steps with |det R - 1| > 1e-6; distinct = distinct digest."
)
ASSUMPTIONS = [
    "reference model validated in every history run against expm(-dt(H - ene0)) by Gauss-Hermite quadrature on the dt ladder (ratio >= 3)",
    "state comparison at 1e-9 relative to the norm of the un-normalised state; walkers whose model state is non-finite (after an injected huge field) are not compared",
    "Taylor remainder clause: ||T_n(A) - expm(A)|| <= ||A||^n/n! e^||A|| is asserted on the model, the code is tied to the model's T_n at 1e-9",
]
COMPONENTS = {
    "real": ["ad_afqmc.propagation.propagator_unrestricted.propagate_free / _apply_trotprop / _multiply_constant / _orthogonalize_walkers", "ad_afqmc.linalg_utils.qr_vmap_uhf",
             "ad_afqmc.sampling.sampler.propagate_free / _block_scan_free", "ad_afqmc.driver.fp_afqmc", "ad_afqmc.wavefunctions uhf/noci", "jax / XLA CPU"],
    "model": ["afqmcsim.models.fock", "afqmcsim.models.phaseless.StepModel.free_step"],
    "stub": ["mpi4py.MPI -> SimComm/SimWorld", "wall clock", "stdout"],
}
REQUIRED_PROBES = {"quick": ["steps_compared", "qr_nontrivial", "sampler_runs", "driver_runs", "ladder_runs", "ladder_asymptotic", "model_validated", "fault_steps"],
                   "thorough": ["steps_compared", "qr_nontrivial", "sampler_runs", "driver_runs", "ladder_runs", "fault_steps"]}


def menu_entry(k):
    r = random.Random(50000 + k)
    kind = ["history", "history", "sampler", "history", "driver", "ladder"][k % 6]
    norb = r.choice([3, 4, 4, 4, 5])
    ne = r.choice([[2, 1], [2, 2], [1, 1], [3, 1]]) if norb > 3 else r.choice([[2, 1], [1, 1], [2, 2]])
    m = dict(wt="unrestricted", trial=r.choice(["uhf", "uhf", "noci"]), nelec=ne, norb=norb, nchol=r.choice([1, 2, 3]),
             dt=STEP_DTS[k % 4], n_exp_terms=r.choice([4, 6, 10]), n_walkers=r.choice([4, 6]), n_batch=r.choice([1, 2]), kind=kind)
    if kind in ("sampler", "driver"):
        m.update(n_prop_steps=r.choice([1, 2, 3]), n_blocks=r.choice([1, 2, 3]), n_ene_blocks=r.choice([1, 2]))
    if kind == "driver":
        m["R"] = r.choice([1, 2, 3])
    return lab.corner_override(m, k, 5, empty_ok=False, rhf_unrestricted_ok=False)  # the property quantifies over electron counts with both spins present


def gen_cfg(seed, index, tier):
    m = dict(menu_entry(index % MENU[tier]))
    rng = random.Random(seed)
    m["menu"] = index % MENU[tier]
    m["ham_seed"] = rng.randrange(1, 2**31 - 1)
    m["strength"] = rng.choice([0.2, 0.4, 0.6])
    m["mix"] = rng.choice([0.0, 0.1, 0.3])
    m["spin_dep"] = rng.random() < 0.6
    m["rdm1_kind"] = rng.choice(["own", "arbitrary"])
    m["rdm1_complex"] = m["rdm1_kind"] == "arbitrary" and random.Random(seed + 31).random() < 0.5
    m["h1_antisym"] = rng.choice([0.0, 0.0, 0.0, 0.05])
    m["reuse_ham_data"] = rng.random() < 0.3
    # nearly linearly dependent columns in a user-supplied start walker (condition number 1e4-1e6)
    m["near_dependent_start"] = (not m.get("orthonormal_start", True)) and rng.random() < 0.5
    m["ene0"] = rng.choice([0.0, -1.3, 0.7])
    m["jax_seed"] = rng.randrange(1, 2**20)
    m["walker_noise"] = rng.choice([0.0, 0.1, 0.3])
    # user-supplied start walkers need not be orthonormal: the first step's QR must then put det R into the norm
    m["orthonormal_start"] = rng.random() < 0.5
    nw = m["n_walkers"]
    if m["kind"] == "history":
        ops = []
        for _ in range(rng.randint(1, 20)):
            o = rng.choice(["step"] * 8 + ["tail", "huge"])
            if o == "tail":
                ops.append(["tail", rng.randrange(nw), rng.choice([4.0, 6.0, 10.0])])
            elif o == "huge":
                ops.append(["huge", rng.randrange(nw), rng.randrange(m["nchol"]), rng.choice([30.0, 1e3, 1e100])])
            else:
                ops.append([o])
        m["ops"] = ops
    if m["kind"] == "driver":
        m["sched"] = {"policy": rng.choice(["random", "sticky", "straggler", "reverse"]), "straggler": rng.randrange(3), "p_rendezvous": rng.choice([0.0, 0.5, 1.0]), "p_clock_jump": 0.0}
    return m


def group_of(cfg):
    return f"m{cfg['menu']:03d}"


def group_of_index(seed, index, tier):
    return f"m{index % MENU[tier]:03d}"


def build(cfg, dt=None):
    import jax.numpy as jnp

    spec = {k: cfg[k] for k in ("norb", "nelec", "nchol", "wt", "trial", "n_walkers", "n_batch", "n_exp_terms", "ham_seed", "strength", "mix", "spin_dep")}
    spec["dt"] = cfg["dt"] if dt is None else dt
    spec["h1_antisym"] = cfg.get("h1_antisym", 0.0)
    s = lab.build_system(spec, harness=False)
    rs = np.random.RandomState((cfg["ham_seed"] + 99) % (2**32 - 1))
    s.ham_data_raw = dict(s.ham_data_raw)
    s.ham_data_raw["ene0"] = cfg["ene0"]
    if cfg["rdm1_kind"] == "arbitrary":
        r0 = np.asarray(s.wave_data["rdm1"])
        s.wave_data = dict(s.wave_data)
        r1 = r0 + np.array([lab.rand_sym(rs, cfg["norb"], 0.3), lab.rand_sym(rs, cfg["norb"], 0.3)])
        if cfg.get("rdm1_complex"):
            # Hermitian with an imaginary (antisymmetric) part, as the density matrix of complex orbitals is
            k_ = rs.normal(size=(2, cfg["norb"], cfg["norb"])) * 0.3
            r1 = r1 + 1j * (k_ - np.transpose(k_, (0, 2, 1)))
        s.wave_data["rdm1"] = jnp.array(r1)
    s.ham_data = lab.build_intermediates(s, s.plain, reuse=cfg.get("reuse_ham_data", False))
    return s, rs


def make_model(cfg, s, dt=None):
    hd = s.ham_data_raw
    sec = fock.Sector(cfg["norb"], cfg["nelec"])
    psi = fock.trial_state(sec, cfg["trial"], s.wave_data)
    return phaseless.StepModel(norb=cfg["norb"], nelec=cfg["nelec"], h0=float(hd["h0"]), h1=np.asarray(hd["h1"]), chol=np.asarray(hd["chol"]),
                               rdm1=np.asarray(s.wave_data["rdm1"]), dt=cfg["dt"] if dt is None else dt, n_exp_terms=cfg["n_exp_terms"], psi=psi,
                               restricted=False, ene0=cfg["ene0"])


def start_walkers(cfg, s, rs):
    import jax.numpy as jnp

    nw = cfg["n_walkers"]
    own = np.asarray(s.trial.get_rdm1({k: v for k, v in s.wave_data.items() if k != "rdm1"}))
    bu = np.linalg.eigh(own[0])[1][:, ::-1][:, : cfg["nelec"][0]]
    bd = np.linalg.eigh(own[1])[1][:, ::-1][:, : cfg["nelec"][1]]
    eps = cfg["walker_noise"]

    def noisy(b):
        x = b[None] + eps * (rs.normal(size=(nw,) + b.shape) + 1j * rs.normal(size=(nw,) + b.shape))
        if cfg.get("orthonormal_start", True):
            return np.array([np.linalg.qr(y)[0] for y in x])
        x = x * (0.7 + 0.6 * rs.uniform(size=(nw, 1, 1)))  # general full-rank walkers, not even normalised
        if cfg.get("near_dependent_start") and x.shape[2] >= 2:
            # last column = first column + a tiny admixture of itself: condition number ~ 1 / eps_dep
            eps_dep = 10.0 ** rs.uniform(-6, -4, size=(nw, 1))
            x[:, :, -1] = x[:, :, 0] + eps_dep * x[:, :, -1]
        return x

    return [jnp.array(noisy(bu)), jnp.array(noisy(bd))]


def _bad(ctx, klass, site, cfg, **d):
    d["trigger"] = {"kind": cfg["kind"], "trial": cfg["trial"]}
    d["menu"] = cfg["menu"]
    ctx.violation(klass, site, d)


class Tracker:
    """Model side of a free-projection trajectory: un-normalised matrices per walker."""

    def __init__(self, m, up, dn):
        self.m = m
        self.M = [(np.array(up[i]), np.array(dn[i])) for i in range(len(up))]
        self.ok = [True] * len(up)

    def advance(self, x):
        for i in range(len(self.M)):
            if not self.ok[i]:
                continue
            with np.errstate(all="ignore"):
                u, d = self.m.free_step(self.M[i][0], self.M[i][1], x[i])
            self.M[i] = (u, d)
            if not (np.all(np.isfinite(u)) and np.all(np.isfinite(d))):
                self.ok[i] = False


def compare_free(ctx, cfg, m, tr, opname, walkers_up, walkers_dn, norms, overlaps, normed_overlaps, stats, site):
    """Bookkeeping identities for every walker after a step."""
    for i in range(len(tr.M)):
        if not tr.ok[i]:
            continue
        Mu, Md = tr.M[i]
        want = m.state(Mu, Md)
        nrm = float(np.linalg.norm(want))
        if not np.isfinite(nrm) or nrm == 0.0 or nrm > 1e250 or nrm < 1e-250:
            tr.ok[i] = False
            continue
        # an injected huge field leaves an extremely ill-conditioned un-normalised matrix;
        # determinants of its sub-blocks then carry a relative round-off of cond x eps in
        # both the code and the model, so the tolerance follows the conditioning and a
        # walker beyond cond 1e5 is no longer refined (counted)
        kappa = lab.cond(Mu) * lab.cond(Md)
        if not np.isfinite(kappa) or kappa > 1e7:
            tr.ok[i] = False
            stats["dropped_ill_conditioned"] = stats.get("dropped_ill_conditioned", 0) + 1
            continue
        tol = 1e-9 + 1e-12 * kappa  # a backward-stable orthonormalisation loses about cond x eps
        Q = (walkers_up[i], walkers_dn[i])
        for q in Q:
            if not np.allclose(q.conj().T @ q, np.eye(q.shape[1]), atol=1e-9):
                _bad(ctx, "free.walker_not_orthonormal_after_step", site, cfg, op=opname, walker=i)
                return
        got = norms[i] * m.state(Q[0], Q[1])
        err = float(np.linalg.norm(got - want)) / nrm
        if not err <= tol:
            _bad(ctx, "free.norm_times_walker_is_not_unnormalised_product", site, cfg, op=opname, walker=i, rel_err=err, norm=str(complex(norms[i])))
            return
        ov_want = np.vdot(m.psi, want)
        if not abs(overlaps[i] - ov_want) <= tol * max(abs(ov_want), 1e-3 * nrm):
            _bad(ctx, "free.stored_overlap_is_not_overlap_of_unnormalised_state", site, cfg, op=opname, walker=i, code=str(complex(overlaps[i])), model=str(complex(ov_want)))
            return
        nov = np.vdot(m.psi, m.state(Q[0], Q[1]))
        if normed_overlaps is not None and not abs(normed_overlaps[i] - nov) <= 1e-9 * max(abs(nov), 1e-3):
            _bad(ctx, "free.normed_overlap_wrong", site, cfg, op=opname, walker=i, code=str(complex(normed_overlaps[i])), model=str(complex(nov)))
            return
        stats["steps_compared"] += 1
        if abs(abs(norms[i]) - 1.0) > 1e-6:
            stats["qr_nontrivial"] += 1


def taylor_remainder_check(ctx, cfg, m, x):
    """||T_n(A) - expm(A)|| <= ||A||^n/n! e^||A||  (model-level statement)."""
    import scipy.linalg

    T, A = m.taylor(np.asarray(x, dtype=complex))
    na = float(np.linalg.norm(A, 2))
    if not np.isfinite(na) or na > 20:
        return
    bound = na**m.n_exp / math.factorial(m.n_exp) * math.exp(na)
    err = float(np.linalg.norm(T - scipy.linalg.expm(A), 2))
    if err > bound * (1 + 1e-9) + 1e-14:
        raise HarnessError(f"Taylor remainder bound violated by the model: err={err} bound={bound}")
    ctx.count("taylor_remainder_checked")


def execute(cfg, ctx):
    return {"history": _exec_history, "sampler": _exec_sampler, "driver": _exec_driver, "ladder": _exec_ladder}[cfg["kind"]](cfg, ctx)


def _init(cfg, s, rs):
    from jax import random as jr

    w0 = start_walkers(cfg, s, rs)
    s.input_walkers = (np.asarray(w0[0]).copy(), np.asarray(w0[1]).copy())  # what the caller handed in
    pd = s.plain.init_prop_data(s.trial, s.wave_data, dict(s.ham_data), [w0[0], w0[1]])
    pd["key"] = jr.PRNGKey(cfg["jax_seed"])
    return pd


def _exec_history(cfg, ctx):
    import jax
    import jax.numpy as jnp
    from jax import random as jr

    s, rs = build(cfg)
    m = make_model(cfg, s)
    pd = _init(cfg, s, rs)
    ov = np.asarray(pd["overlaps"])
    if not (np.all(np.isfinite(np.abs(ov))) and np.min(np.abs(ov)) > 1e-4):
        ctx.count("precondition_start_overlap")
        return {"digest": None, "nontrivial": False}
    up, dn = s.input_walkers
    order = 8 if cfg["nchol"] <= 2 else 6
    res, ratios = phaseless.ladder_ratios(lambda dt: make_model(cfg, s, dt), up[0], dn[0], LADDER, kind="free", order=order)
    if min(ratios[-2:]) >= 3.0 and res[-1] < 1e-3:
        ctx.count("model_validated")
        ctx.probe("model_validated", 1)
    else:
        ctx.count("model_not_asymptotic_on_this_walker")
    tr = Tracker(m, up, dn)
    site = "propagator_unrestricted.propagate_free"
    nw, G = cfg["n_walkers"], cfg["nchol"]
    key = jr.PRNGKey(cfg["jax_seed"] + 3)
    stats = dict(steps_compared=0, qr_nontrivial=0)
    # the state set up from the caller's walkers represents exactly those walkers: norm x walker = input
    for i in range(nw):
        want = m.state(up[i], dn[i])
        got = np.asarray(pd["norms"])[i] * m.state(np.asarray(pd["walkers"][0])[i], np.asarray(pd["walkers"][1])[i])
        if not float(np.linalg.norm(got - want)) <= 1e-9 * float(np.linalg.norm(want)):
            _bad(ctx, "free.initial_state_is_not_the_input_walker", "propagator_unrestricted.init_prop_data", cfg, walker=i,
                 rel_err=float(np.linalg.norm(got - want) / np.linalg.norm(want)), orthonormal_start=cfg.get("orthonormal_start", True))
            break
    calc_e = jax.jit(lambda w, hd, wd: s.trial.calc_energy(w, hd, wd))
    calc_fb = jax.jit(lambda w, hd, wd: s.trial.calc_force_bias(w, hd, wd))
    rec = []
    for k, op in enumerate(cfg["ops"]):
        key, sub = jr.split(key)
        x = np.array(jr.normal(sub, shape=(nw, G)))
        if op[0] == "tail":
            x[op[1], :] *= op[2]
            ctx.probe("fault_steps", 1)
        elif op[0] == "huge":
            x[op[1], op[2]] = op[3]
            ctx.probe("fault_steps", 1)
        if k == 0:
            taylor_remainder_check(ctx, cfg, m, x[0])
        pd = s.plain.propagate_free(s.trial, s.ham_data, lab.copy_pd(pd), jnp.array(x), s.wave_data)
        tr.advance(x)
        wu, wd_ = np.asarray(pd["walkers"][0]), np.asarray(pd["walkers"][1])
        compare_free(ctx, cfg, m, tr, f"{k}:{op[0]}", wu, wd_, np.asarray(pd["norms"]), np.asarray(pd["overlaps"]), np.asarray(pd["normed_overlaps"]), stats, site)
        # the in-step QR changes neither local energy nor force bias
        good = [i for i in range(nw) if tr.ok[i] and np.linalg.norm(tr.M[i][0]) < 1e100 and np.linalg.norm(tr.M[i][1]) < 1e100]
        if good and k % 3 == 0:
            raw = [jnp.array(np.array([tr.M[i][0] for i in range(nw)])), jnp.array(np.array([tr.M[i][1] for i in range(nw)]))]
            if all(tr.ok):
                e_q, e_m = np.asarray(calc_e(pd["walkers"], s.ham_data, s.wave_data)), np.asarray(calc_e(raw, s.ham_data, s.wave_data))
                f_q, f_m = np.asarray(calc_fb(pd["walkers"], s.ham_data, s.wave_data)), np.asarray(calc_fb(raw, s.ham_data, s.wave_data))
                if not np.allclose(e_q, e_m, rtol=1e-8, atol=1e-9) or not np.allclose(f_q, f_m, rtol=1e-8, atol=1e-9):
                    _bad(ctx, "free.qr_changes_local_energy_or_force_bias", site, cfg, op=k, e_q=str(e_q.tolist()), e_unnormalised=str(e_m.tolist()))
                ctx.count("qr_invariance_checked")
        rec.append(arr_hash(np.asarray(pd["norms"]), np.asarray(pd["overlaps"])))
    for kk, v in stats.items():
        ctx.probe(kk, v)
        ctx.count(kk, v)
    n = len(cfg["ops"])
    return {"digest": arr_hash(np.frombuffer("|".join(rec).encode(), np.uint8)), "nontrivial": n >= 2 and stats["qr_nontrivial"] > 0,
            "state_keys": [f"hist-{cfg['trial']}-{cfg['nelec']}-G{cfg['nchol']}-dt{cfg['dt']}-n{cfg['n_exp_terms']}-{cfg['rdm1_kind']}-e{cfg['ene0']}"],
            "sim_steps": n, "sim_time": n * cfg["dt"], "sample": {"cfg": cfg, "stats": stats, "model_ladder_residuals": res, "model_ladder_ratios": ratios,
                                                                 "final_norms": str(np.asarray(pd["norms"]).tolist())}}


def replay_trajectory(ctx, cfg, s, m, key, init_up, init_dn, traj, n_prop_steps, n_blocks, site, stats, block_energy=None, block_weight=None):
    """Replay one sampler.propagate_free call (n_blocks blocks of n_prop_steps steps) through
    the model with the same jax.random stream; traj holds stacked per-block outputs."""
    import jax
    from jax import random as jr

    nw, G = cfg["n_walkers"], cfg["nchol"]
    tr = Tracker(m, init_up, init_dn)
    calc_e = jax.jit(lambda w, hd, wd: s.trial.calc_energy(w, hd, wd))
    for b in range(n_blocks):
        key, sub = jr.split(key)
        fields = np.asarray(jr.normal(sub, shape=(n_prop_steps, nw, G)))
        for st in range(n_prop_steps):
            tr.advance(fields[st])
        wu, wd_ = np.asarray(traj["walkers"][0][b]), np.asarray(traj["walkers"][1][b])
        compare_free(ctx, cfg, m, tr, f"block {b}", wu, wd_, np.asarray(traj["norms"][b]), np.asarray(traj["overlaps"][b]), np.asarray(traj["normed_overlaps"][b]), stats, site)
        if block_energy is not None:
            e = np.asarray(calc_e([traj["walkers"][0][b], traj["walkers"][1][b]], s.ham_data, s.wave_data))
            ovs = np.asarray(traj["overlaps"][b])
            want_w = np.sum(ovs)
            want_e = np.sum(e * ovs) / want_w
            if not abs(block_weight[b] - want_w) <= 1e-9 * abs(want_w):
                _bad(ctx, "free.block_weight_is_not_sum_of_overlaps", "sampler.propagate_free", cfg, block=b, code=str(complex(block_weight[b])), expected=str(complex(want_w)))
            if not abs(block_energy[b] - want_e) <= 1e-9 * max(1.0, abs(want_e)):
                _bad(ctx, "free.block_energy_is_not_overlap_weighted_mean", "sampler.propagate_free", cfg, block=b, code=str(complex(block_energy[b])), expected=str(complex(want_e)))
    return key


def _exec_sampler(cfg, ctx):
    from ad_afqmc import sampling

    s, rs = build(cfg)
    m = make_model(cfg, s)
    pd = _init(cfg, s, rs)
    ov = np.asarray(pd["overlaps"])
    if not (np.all(np.isfinite(np.abs(ov))) and np.min(np.abs(ov)) > 1e-4):
        ctx.count("precondition_start_overlap")
        return {"digest": None, "nontrivial": False}
    smp = sampling.sampler(cfg["n_prop_steps"], cfg["n_ene_blocks"], 1, cfg["n_blocks"])
    up, dn = s.input_walkers
    key0 = pd["key"]
    traj, be, bw, newkey = smp.propagate_free(s.ham, dict(s.ham_data), s.plain, lab.copy_pd(pd), s.trial, s.wave_data)
    stats = dict(steps_compared=0, qr_nontrivial=0)
    kend = replay_trajectory(ctx, cfg, s, m, key0, up, dn, traj, cfg["n_prop_steps"], cfg["n_blocks"], "sampler.propagate_free", stats, np.asarray(be), np.asarray(bw))
    if not np.array_equal(np.asarray(kend), np.asarray(newkey)):
        _bad(ctx, "free.sampler_key_stream_differs_from_replay", "sampler.propagate_free", cfg)
    ctx.probe("sampler_runs", 1)
    for kk, v in stats.items():
        ctx.probe(kk, v)
        ctx.count(kk, v)
    n = cfg["n_prop_steps"] * cfg["n_blocks"]
    return {"digest": arr_hash(np.asarray(be), np.asarray(bw)), "nontrivial": n >= 2 and stats["qr_nontrivial"] > 0,
            "state_keys": [f"sampler-{cfg['trial']}-{cfg['nelec']}-{cfg['n_prop_steps']}x{cfg['n_blocks']}-dt{cfg['dt']}"],
            "sim_steps": n, "sim_time": n * cfg["dt"], "sample": {"cfg": cfg, "block_energy": str(np.asarray(be).tolist()), "block_weight": str(np.asarray(bw).tolist())}}


def _exec_driver(cfg, ctx):
    from jax import random as jr

    from ad_afqmc import sampling

    s, rs = build(cfg)
    m = make_model(cfg, s)
    smp = sampling.sampler(cfg["n_prop_steps"], cfg["n_ene_blocks"], 1, cfg["n_blocks"])
    opts = {"seed": cfg["jax_seed"], "save_walkers": True}
    R = cfg["R"]
    site = "driver.fp_afqmc"
    try:
        out = lab.run_driver_world(s, smp, opts, R, ctx.decider, sched=cfg["sched"], log=EventLog(), prop=s.plain, free_projection=True)
    except (Deadlock, SimMPIError) as e:
        _bad(ctx, "free.driver_failed", site, cfg, error=str(e))
        return {"digest": None, "nontrivial": False}
    # initial walkers as the driver builds them (deterministic, from the trial)
    pd0 = s.plain.init_prop_data(s.trial, s.wave_data, dict(s.ham_data))
    up, dn = np.asarray(pd0["walkers"][0]), np.asarray(pd0["walkers"][1])
    stats = dict(steps_compared=0, qr_nontrivial=0)
    for r in range(R):
        items = out["pickles"].get(r) or []
        if len(items) != cfg["n_ene_blocks"]:
            raise HarnessError(f"rank {r}: {len(items)} pickled trajectories, expected {cfg['n_ene_blocks']}")
        key = jr.PRNGKey(cfg["jax_seed"] + r)
        for n, traj in enumerate(items):
            key = replay_trajectory(ctx, cfg, s, m, key, up, dn, traj, cfg["n_prop_steps"], cfg["n_blocks"], site, stats)
    ctx.probe("driver_runs", 1)
    for kk, v in stats.items():
        ctx.probe(kk, v)
        ctx.count(kk, v)
    w = out["world"]
    for k in ("collectives", "sched_decisions"):
        ctx.count(k, w.stats[k])
    n = cfg["n_prop_steps"] * cfg["n_blocks"] * cfg["n_ene_blocks"] * R
    raw = out["files"].get("samples_raw.dat", b"")
    return {"digest": arr_hash(np.frombuffer(raw, np.uint8)), "nontrivial": stats["qr_nontrivial"] > 0, "sched_key": arr_hash(np.array(w.sched_trace, dtype=np.int64)),
            "state_keys": [f"driver-R{R}-{cfg['trial']}-{cfg['nelec']}-{cfg['n_prop_steps']}x{cfg['n_blocks']}x{cfg['n_ene_blocks']}"],
            "sim_steps": n, "sim_time": n * cfg["dt"], "sample": {"cfg": cfg, "stats": stats, "samples_raw_head": raw.decode().splitlines()[:2]}}


def _exec_ladder(cfg, ctx):
    import jax.numpy as jnp

    order = 8 if cfg["nchol"] <= 2 else 6
    res, res_model = [], []
    nw, G = cfg["n_walkers"], cfg["nchol"]
    site = "propagator_unrestricted.propagate_free"
    w0 = None
    for dt in LADDER:
        s, rs = build(cfg, dt=dt)
        m = make_model(cfg, s, dt)
        if w0 is None:
            w0 = start_walkers(cfg, s, rs)
        pd = s.plain.init_prop_data(s.trial, s.wave_data, dict(s.ham_data), w0)
        pd["walkers"] = [jnp.array(np.repeat(np.asarray(pd["walkers"][s_])[0:1], nw, axis=0)) for s_ in (0, 1)]
        up, dn = np.asarray(pd["walkers"][0])[0], np.asarray(pd["walkers"][1])[0]
        nodes, weights = m.gh_nodes(order)
        acc = np.zeros(m.sec.dim, dtype=complex)
        for c in range(0, len(nodes), nw):
            chunk = nodes[c : c + nw]
            x = np.zeros((nw, G))
            x[: len(chunk)] = chunk
            out = s.plain.propagate_free(s.trial, s.ham_data, lab.copy_pd(pd), jnp.array(x), s.wave_data)
            wu, wd_, nr = np.asarray(out["walkers"][0]), np.asarray(out["walkers"][1]), np.asarray(out["norms"])
            for j in range(len(chunk)):
                acc += weights[c + j] * nr[j] * m.state(wu[j], wd_[j])
        target = m.free_target(up, dn)
        acc_model = m.free_average(up, dn, order)
        tn = float(np.linalg.norm(target))
        if not float(np.linalg.norm(acc - acc_model)) <= 1e-8 * tn:
            _bad(ctx, "free.field_average_differs_from_model", site, cfg, dt=dt, rel_diff=float(np.linalg.norm(acc - acc_model)) / tn)
        res.append(float(np.linalg.norm(acc - target)) / tn)
        res_model.append(float(np.linalg.norm(acc_model - target)) / tn)
    ratios = [res[i] / res[i + 1] if res[i + 1] > 0 else float("inf") for i in range(len(res) - 1)]
    ratios_model = [res_model[i] / res_model[i + 1] if res_model[i + 1] > 0 else float("inf") for i in range(len(res) - 1)]
    ctx.probe("ladder_runs", 1)
    ctx.count("quadrature_nodes_through_code", len(LADDER) * len(nodes))
    if min(ratios_model[-2:]) >= 3.3 and res_model[-1] < 5e-4:
        ctx.probe("ladder_asymptotic", 1)
        if not (min(ratios[-2:]) >= 3.0 and res[-1] < 1e-3):
            _bad(ctx, "free.field_average_not_exp_minus_dt_H", site, cfg, residuals=res, ratios=ratios, model_residuals=res_model, model_ratios=ratios_model)
    else:
        ctx.count("model_not_asymptotic_on_this_walker")
    return {"digest": arr_hash(np.array(res)), "nontrivial": True, "state_keys": [f"ladder-{cfg['trial']}-{cfg['nelec']}-G{cfg['nchol']}-n{cfg['n_exp_terms']}-{cfg['rdm1_kind']}-e{cfg['ene0']}"],
            "sim_steps": len(LADDER) * len(nodes), "sim_time": sum(LADDER) * len(nodes), "sample": {"cfg": cfg, "residuals": res, "ratios": ratios, "model_residuals": res_model, "model_ratios": ratios_model}}


def shrink_candidates(cfg, decisions):
    from ..shrink import decision_candidates, drop_each

    if cfg["kind"] == "history":
        ops = cfg["ops"]
        n = len(ops)
        for keep in (1, n // 2, n - 1):
            if 0 < keep < n:
                yield dict(cfg, ops=ops[:keep]), decisions
        for i, o in enumerate(ops):
            if o[0] != "step":
                o2 = list(ops)
                o2[i] = ["step"]
                yield dict(cfg, ops=o2), decisions
    for k, v in (("mix", 0.0), ("strength", 0.2), ("spin_dep", False), ("rdm1_kind", "own"), ("walker_noise", 0.0), ("ene0", 0.0)):
        if cfg.get(k) != v:
            yield dict(cfg, **{k: v}), decisions
    if cfg["kind"] == "driver":
        for d in decision_candidates(decisions):
            yield cfg, d
