"""C11 - determinant-list trials mean what they say; an exact trial gives zero variance.

  lists   random CI vectors and exact eigenvectors over <= 4 orbitals are turned into
          determinant lists with random order, random reference (first) determinant and a
          random admissible excitation cut-off, through a state dict, through a dets.bin
          file written by an independent writer and read by the real reader, and (some
          runs) through pyscf's FCI solver + get_fci_state; the library overlap of random
          complex walkers equals sum_i c_i <D_i|phi> from the Fock engine, and for an exact
          eigenvector every local energy equals the eigenvalue;
  driver  a COMPLETE driver.afqmc run with the exact eigenvector as multi-Slater trial on
          1-3 simulated ranks (restricted and unrestricted walkers, option combinations,
          injected field tails, PRNG-chosen schedules): a harness propagator records the
          largest |E_local - E0| over live walkers at every step inside the compiled loops;
          every row of samples_raw.dat and the returned energy equal E0.
"""
import os
import random
import struct

import numpy as np

from .. import env, lab
from ..core import EventLog, HarnessError, arr_hash
from ..models import fock
from ..simmpi import SimMPIError
from ..world import Deadlock

ID = "C11"
NAME = "zero_variance"
TITLE = "Determinant-list trials mean what they say; an exact trial gives zero variance"

MENU = {"quick": 32, "thorough": 96}
TIERS = {
    "quick": dict(runs=32 * 8, budget_s=330, recheck=2, shrink_s=90.0, run_timeout_s=1200),
    "thorough": dict(runs=96 * 60, budget_s=1200, recheck=4, shrink_s=240.0, run_timeout_s=1800),
}
E_TOL = 2.0e-5  # finite-difference (eps = 1e-4) local energy of the AD-based trial + float32 samples (block energies)
# single local energies inside the compiled loops: the second difference (ov(+eps) - 2 ov(0) + ov(-eps)) / eps^2 / ov
# carries round-off eps_machine / eps^2 times the cancellation in ov, which reaches a few 1e-5 for walkers with a
# small trial overlap (thorough tier: 2 of 5299 runs at 2.4e-5 and 2.6e-5); wrong lists give deviations >= 1e-2
E_TOL_WALKER = 2.0e-4
RULE = (
    "run i uses compiled-menu entry i mod M (electron counts incl. open shell with n_dn >= 1, walker type, kind lists/driver, list route "
    "state-dict / dets.bin file / pyscf FCI, driver options and rank count) and draws the Hamiltonian, the CI vector (random or exact "
    "eigenvector), list order, reference determinant, excitation cut-off, walkers, JAX seed, field faults and schedules from "
    "sha256(seed|C11|i). Non-trivial = the reference determinant is not the aufbau determinant or the list order is not sorted; "
    "distinct = distinct digest."
)
ASSUMPTIONS = [
    "exact eigenpair from numpy.linalg.eigh on the Fock engine's Hamiltonian; runs whose target eigenvalue is closer than 1e-3 to the next one are skipped (precondition)",
    "block energies and returned energies are compared at 2e-5 max(1,|E0|) (finite-difference trial, float32 samples), single local energies inside the loops at 2e-4 max(1,|E0|) (finite-difference round-off grows for walkers with small overlap)",
    "restricted walkers (closed-shell sectors) are used with any reference determinant, also one whose alpha and beta strings differ; runs in which get_init_walkers refuses (no closed-shell walker with trial overlap > 1e-3) are counted as precondition failures",
    "full determinant lists (all determinants of the sector), so the compiled array shapes do not depend on the reference",
]
COMPONENTS = {
    "real": ["ad_afqmc.pyscf_interface.get_excitations / read_dets / parity / get_fci_state", "ad_afqmc.wavefunctions.multislater (+ wave_function_auto energy and force bias)",
             "ad_afqmc.driver.afqmc, sampling.sampler, propagation", "pyscf.fci.direct_spin1 (pyscf route)", "jax / XLA CPU"],
    "model": ["afqmcsim.models.fock (Hamiltonian, exact diagonalisation, determinant amplitudes)"],
    "stub": ["mpi4py.MPI -> SimComm/SimWorld", "wall clock", "stdout", "Dice (dets.bin written by an independent writer)"],
}
REQUIRED_PROBES = {"quick": ["list_runs", "driver_runs", "non_aufbau_reference", "file_route", "exact_energy_checks", "spin_dependent_h1", "restricted_entry_checked", "list_assembled_twice"],
                   "thorough": ["list_runs", "driver_runs", "non_aufbau_reference", "file_route", "pyscf_route", "exact_energy_checks", "fault_fired"]}


def menu_entry(k):
    r = random.Random(110000 + k)
    kind = ["lists", "driver", "lists", "driver"][k % 4]
    m = dict(kind=kind, norb=4, nchol=r.choice([2, 3]))
    if kind == "lists":
        m["nelec"] = r.choice([[1, 1], [2, 1], [2, 2], [3, 1], [3, 2], [2, 2]])
        m["wt"] = "unrestricted"
        m["n_walkers"] = 4
    else:
        m["wt"] = ["restricted", "unrestricted"][(k // 4) % 2]
        m["nelec"] = r.choice([[1, 1], [2, 2]]) if m["wt"] == "restricted" else r.choice([[1, 1], [2, 1], [2, 2]])
        m.update(n_walkers=r.choice([4, 6]), dt=r.choice([0.005, 0.01, 0.02]), n_prop_steps=r.choice([1, 2, 3]), n_ene_blocks=r.choice([1, 2]), n_sr_blocks=r.choice([1, 2]),
                 n_blocks=r.choice([3, 4]), R=r.choice([1, 2, 3]), n_eql=1, n_ene_blocks_eql=1, n_sr_blocks_eql=1, ad_mode=None)
    return lab.corner_override(m, k, 11)


def max_rank(norb, nelec):
    return min(nelec[0], norb - nelec[0]) + min(nelec[1], norb - nelec[1])


def gen_cfg(seed, index, tier):
    m = dict(menu_entry(index % MENU[tier]))
    rng = random.Random(seed)
    m["menu"] = index % MENU[tier]
    m["ham_seed"] = rng.randrange(1, 2**31 - 1)
    m["strength"] = rng.choice([0.3, 0.5, 0.8]) if m["kind"] == "lists" else rng.choice([0.2, 0.3, 0.5])
    m["order_seed"] = rng.randrange(1, 2**31 - 1)
    m["reference"] = rng.choice(["largest", "random", "random", "aufbau"])
    m["route"] = rng.choice(["state", "file", "file"]) if m["kind"] == "lists" else rng.choice(["state", "state", "file"])
    if m["kind"] == "lists" and rng.random() < (0.15 if tier == "quick" else 0.1):
        m["route"] = "pyscf"
    # max_excitation is a static attribute of the trial (compiled loops): admissible values are >= the largest rank in the list;
    # keep it fixed per sector (largest possible) plus, for lists, sometimes a larger value
    m["max_excitation"] = max_rank(m["norb"], m["nelec"]) + (rng.choice([0, 0, 1]) if m["kind"] == "lists" else 0)
    m["vector"] = rng.choice(["eigen0", "eigen0", "eigen1", "random"]) if m["kind"] == "lists" else "eigen0"
    m["jax_seed"] = rng.randrange(1, 2**20)
    # spin-dependent one-body term (e.g. a Zeeman / pinning field): only with unrestricted walkers
    # (restricted entry points see the spin average) and not on the pyscf route (spin-free solver)
    m["spin_dep"] = m["wt"] == "unrestricted" and m["route"] != "pyscf" and rng.random() < 0.4
    # total energies of real molecules are far larger than the large-deviation bound sqrt(2/dt): a constant
    # offset of the Hamiltonian brings the exact eigenvalue into that regime
    m["h0_offset"] = rng.choice([0.0, 0.0, -60.0, 45.0])
    m["reuse_ham_data"] = m["kind"] == "lists" and rng.random() < 0.3
    if m["kind"] == "driver":
        faults = []
        if rng.random() < 0.4:
            for _ in range(rng.choice([1, 2])):
                faults.append(dict(step=rng.randrange(60), walker=rng.randrange(m["n_walkers"]), comp=-1, value=rng.choice([3.0, 5.0, 8.0]), mode=1))
        m["faults"] = faults
        m["sched"] = {"policy": rng.choice(["random", "sticky", "straggler", "reverse"]), "straggler": rng.randrange(3), "p_rendezvous": rng.choice([0.0, 0.5, 1.0]), "p_clock_jump": 0.0}
    return m


def group_of(cfg):
    return f"m{cfg['menu']:03d}"


def group_of_index(seed, index, tier):
    return f"m{index % MENU[tier]:03d}"


# ------------------------------------------------------------------ list construction


def write_dets_bin(path, dets, coeffs, norb):
    """Independent writer of the Dice determinant file format the library reads:
    int32 ndets, int32 norbs, then per determinant a float64 coefficient and one
    character per orbital ('2' doubly, 'a' alpha, 'b' beta, '0' empty)."""
    with open(path, "wb") as f:
        f.write(struct.pack("i", len(dets)))
        f.write(struct.pack("i", norb))
        for (du, dd), c in zip(dets, coeffs):
            f.write(struct.pack("d", float(c)))
            for p in range(norb):
                ch = b"2" if (du[p] and dd[p]) else (b"a" if du[p] else (b"b" if dd[p] else b"0"))
                f.write(struct.pack("c", ch))


def build_problem(cfg):
    rs = np.random.RandomState(cfg["ham_seed"] % (2**32 - 1))
    norb, nelec = cfg["norb"], tuple(cfg["nelec"])
    ham_data = lab.gen_hamiltonian(rs, norb, cfg["nchol"], strength=cfg["strength"], spin_dep=cfg.get("spin_dep", False))
    if cfg.get("h0_offset"):
        ham_data["h0"] = ham_data["h0"] + cfg["h0_offset"]
    sec = fock.Sector(norb, nelec)
    H = sec.hamiltonian(float(ham_data["h0"]), np.asarray(ham_data["h1"]), np.asarray(ham_data["chol"]))
    w, v = np.linalg.eigh(H)
    return ham_data, sec, H, w, v, rs


def choose_vector(cfg, sec, w, v, rs):
    if cfg["vector"] == "random":
        vec = rs.normal(size=sec.dim)
        return vec / np.linalg.norm(vec), None
    k = 0 if cfg["vector"] == "eigen0" else 1
    lo = w[k] - w[k - 1] if k > 0 else np.inf
    hi = w[k + 1] - w[k] if k + 1 < len(w) else np.inf
    if min(lo, hi) < 1e-3:
        return None, None
    return v[:, k].copy(), float(w[k])


def make_list(cfg, sec, vec):
    """(dets, coeffs) in the order the trial will see them; first entry is the reference."""
    ro = random.Random(cfg["order_seed"])
    idx = list(range(sec.dim))
    ro.shuffle(idx)
    # restricted walkers, too, meet references whose alpha and beta strings differ (get_init_walkers builds a
    # blended closed-shell walker for them and refuses only if its trial overlap is below 1e-3: counted precondition)
    cand = [k for k in idx if abs(vec[k]) > 1e-3]
    if not cand:
        return None
    if cfg["reference"] == "largest":
        ref = max(cand, key=lambda k: abs(vec[k]))
    elif cfg["reference"] == "aufbau":
        auf = [k for k in cand if sec.index_to_occ(k)[0][: sec.nup] == [1] * sec.nup and sec.index_to_occ(k)[1][: sec.ndn] == [1] * sec.ndn]
        ref = auf[0] if auf else max(cand, key=lambda k: abs(vec[k]))
    else:
        ref = cand[0]
    order = [ref] + [k for k in idx if k != ref]
    dets = [tuple(map(tuple, sec.index_to_occ(k))) for k in order]
    coeffs = [float(vec[k]) for k in order]
    return dets, coeffs


def _assemble_once_before(cfg, ctx, pyscf_interface, state):
    """History of the caller's list: in half of the runs the same dictionary has already been assembled once
    (a sweep over max_excitation / ndets does that); the trial is then built from the *second* assembly and is
    compared, like any other, with the state the list names."""
    if cfg["order_seed"] % 2 == 0:
        pyscf_interface.get_excitations(state=state, max_excitation=max(1, cfg["max_excitation"] - 1))
        ctx.probe("list_assembled_twice", 1)


def trial_from_list(cfg, dets, coeffs, ctx, sec=None, pyscf_obj=None):
    """Build (trial, wave_data) through the configured route of the real interface."""
    from ad_afqmc import pyscf_interface, wavefunctions

    norb, nelec = cfg["norb"], tuple(cfg["nelec"])
    if cfg["route"] == "state":
        state = {d: c for d, c in zip(dets, coeffs)}
        _assemble_once_before(cfg, ctx, pyscf_interface, state)
        out = pyscf_interface.get_excitations(state=state, max_excitation=cfg["max_excitation"])
    elif cfg["route"] == "file":
        d = env.make_scratch("afqmcsim-dets-")
        try:
            path = os.path.join(d, "dets.bin")
            write_dets_bin(path, dets, coeffs, norb)
            norbs_r, state_r, ndets_r = pyscf_interface.read_dets(path)
            # the reader returns what the writer wrote (intact file)
            if norbs_r != norb or ndets_r != len(dets) or list(state_r.keys()) != list(dets) or not np.array_equal(np.array(list(state_r.values())), np.array(coeffs)):
                ctx.violation("lists.determinant_file_not_read_back", "pyscf_interface.read_dets", {"trigger": {"route": "file"}, "norbs": norbs_r, "ndets": ndets_r, "expected_ndets": len(dets)})
            out = pyscf_interface.get_excitations(fname=path, max_excitation=cfg["max_excitation"])
        finally:
            import shutil

            shutil.rmtree(d, ignore_errors=True)
        ctx.probe("file_route", 1)
    else:
        state = pyscf_interface.get_fci_state(pyscf_obj, tol=0.0)
        _assemble_once_before(cfg, ctx, pyscf_interface, state)
        out = pyscf_interface.get_excitations(state=state, max_excitation=cfg["max_excitation"])
        ctx.probe("pyscf_route", 1)
    Acre, Ades, Bcre, Bdes, coeff, ref_det = out
    wave_data = {"Acre": Acre, "Ades": Ades, "Bcre": Bcre, "Bdes": Bdes, "coeff": coeff, "ref_det": ref_det}
    trial = wavefunctions.multislater(norb, nelec, max_excitation=cfg["max_excitation"])
    return trial, wave_data


def pyscf_fci(cfg, ham_data, sec):
    """Ground state of the same Hamiltonian from pyscf's FCI solver (independent of the
    Fock engine): returns a solver object with .ci/.norb/.nelec as get_fci_state expects."""
    from pyscf import fci

    norb, nelec = cfg["norb"], tuple(cfg["nelec"])
    h1 = np.asarray(ham_data["h1"])[0]
    L = np.asarray(ham_data["chol"]).reshape(-1, norb, norb)
    eri = np.einsum("gpq,grs->pqrs", L, L)
    solver = fci.direct_spin1.FCI()
    solver.conv_tol = 1e-12
    e, ci = solver.kernel(h1, eri, norb, nelec, ecore=float(ham_data["h0"]))
    solver.ci, solver.norb, solver.nelec = ci, norb, nelec
    return solver, float(e)


def _bad(ctx, klass, site, cfg, **d):
    d["trigger"] = {"route": cfg["route"], "wt": cfg["wt"], "reference": cfg["reference"]}
    d["menu"] = cfg["menu"]
    ctx.violation(klass, site, d)


def is_aufbau(ref_det, nelec):
    return list(ref_det[0][: nelec[0]]) == [1] * nelec[0] and list(ref_det[1][: nelec[1]]) == [1] * nelec[1]


def execute(cfg, ctx):
    return _exec_lists(cfg, ctx) if cfg["kind"] == "lists" else _exec_driver(cfg, ctx)


def _exec_lists(cfg, ctx):
    import jax
    import jax.numpy as jnp

    ham_data, sec, H, w, v, rs = build_problem(cfg)
    norb, nelec = cfg["norb"], tuple(cfg["nelec"])
    e_exact = None
    solver = None
    if cfg["route"] == "pyscf":
        solver, e_fci = pyscf_fci(cfg, ham_data, sec)
        if abs(e_fci - w[0]) > 1e-8 * max(1.0, abs(w[0])):
            raise HarnessError(f"Fock engine ground energy {w[0]} != pyscf FCI energy {e_fci}")
        ctx.count("fock_engine_validated_against_pyscf_fci")
        if len(w) > 1 and w[1] - w[0] < 1e-3:
            ctx.count("precondition_degenerate")
            return {"digest": None, "nontrivial": False}
        # the reference vector is whatever the solver returned, expressed in the Fock basis
        vec = np.zeros(sec.dim)
        ci = np.asarray(solver.ci)
        for ia, sa in enumerate(sec.sa):
            for ib, sb in enumerate(sec.sb):
                # pyscf strings: bit p set <=> orbital p occupied; address order = increasing integer value
                vec[ia * sec.db + ib] = ci[_pyscf_addr(norb, sa), _pyscf_addr(norb, sb)]
        e_exact = e_fci
        dets = coeffs = None
        trial, wave_data = trial_from_list(cfg, None, None, ctx, sec, solver)
    else:
        vec, e_exact = choose_vector(cfg, sec, w, v, rs)
        if vec is None:
            ctx.count("precondition_degenerate")
            return {"digest": None, "nontrivial": False}
        lst = make_list(cfg, sec, vec)
        if lst is None:
            ctx.count("precondition_no_reference_candidate")
            return {"digest": None, "nontrivial": False}
        dets, coeffs = lst
        trial, wave_data = trial_from_list(cfg, dets, coeffs, ctx)
    ctx.probe("list_runs", 1)
    ctx.probe("spin_dependent_h1", cfg.get("spin_dep", False))
    ref = np.asarray(wave_data["ref_det"]).tolist()
    nonauf = not is_aufbau(ref, nelec)
    ctx.probe("non_aufbau_reference", nonauf)
    hd = {"h0": ham_data["h0"], "h1": ham_data["h1"], "chol": ham_data["chol"], "ene0": 0.0}
    if cfg.get("reuse_ham_data"):
        # a dict with a history: built for another Hamiltonian first, integrals then overwritten, rebuilt in place
        import jax.numpy as jnp

        other = dict(hd)
        other["chol"] = 0.5 * jnp.array(hd["chol"])
        other = dict(trial._build_measurement_intermediates(other, wave_data))
        for k_ in ("h0", "h1", "chol"):
            other[k_] = hd[k_]
        hd = other
        ctx.probe("reused_ham_data", 1)
    hd = trial._build_measurement_intermediates(hd, wave_data)
    nw = cfg["n_walkers"]
    ups = rs.normal(size=(nw, norb, nelec[0])) + 1j * rs.normal(size=(nw, norb, nelec[0]))
    dns = rs.normal(size=(nw, norb, nelec[1])) + 1j * rs.normal(size=(nw, norb, nelec[1]))
    site_o = "multislater._calc_overlap"
    ov_lib = np.asarray(jax.jit(lambda a, b, wd: trial.calc_overlap([a, b], wd))(jnp.array(ups), jnp.array(dns), wave_data))
    psi = vec.astype(complex)
    recs = []
    for i in range(nw):
        want = np.vdot(psi, sec.det_state(ups[i], dns[i]))
        # pyscf route: overall sign of the CI vector is the solver's; fixed by construction of vec above
        if not abs(ov_lib[i] - want) <= 1e-9 * max(abs(want), 1e-6):
            _bad(ctx, "lists.trial_is_not_sum_of_listed_determinants", site_o, cfg, walker=i, library=str(complex(ov_lib[i])), expected=str(complex(want)), ref_det=ref,
                 ratio=str(complex(ov_lib[i] / want)) if want != 0 else None)
            break
    if nelec[0] == nelec[1]:
        # the same list through the restricted-walker entry point (one matrix for both spins): the list need not be
        # symmetric under exchange of the alpha and beta strings (random vectors are not)
        ov_r = np.asarray(jax.jit(lambda a, wd: trial.calc_overlap(a, wd))(jnp.array(ups), wave_data))
        for i in range(nw):
            st_i = sec.det_state(ups[i], ups[i])
            want = np.vdot(psi, st_i)
            # a restricted walker can be exactly orthogonal to the trial (spin symmetry): absolute floor from the norms
            if not abs(ov_r[i] - want) <= 1e-9 * abs(want) + 1e-11 * np.linalg.norm(st_i) * np.linalg.norm(psi):
                _bad(ctx, "lists.trial_is_not_sum_of_listed_determinants", "multislater._calc_overlap_restricted", cfg, walker=i, library=str(complex(ov_r[i])), expected=str(complex(want)), ref_det=ref)
                break
        ctx.probe("restricted_entry_checked", 1)
        if e_exact is not None and not cfg.get("spin_dep", False):
            good_r = [i for i in range(nw) if abs(ov_r[i]) > 1e-3 * np.linalg.norm(sec.det_state(ups[i], ups[i]))]
            e_r = np.asarray(jax.jit(lambda a, h, wd: trial.calc_energy(a, h, wd))(jnp.array(ups), hd, wave_data))
            for i in good_r:
                if not abs(e_r[i] - e_exact) <= E_TOL * max(1.0, abs(e_exact)):
                    _bad(ctx, "lists.local_energy_of_exact_trial_is_not_the_eigenvalue", "multislater._calc_energy_restricted", cfg, walker=i, library=str(complex(e_r[i])), eigenvalue=e_exact, ref_det=ref)
                    break
            ctx.count("exact_energy_checks_restricted", len(good_r))
    # whatever the list is (eigenvector or not), the measurement routines are those of the state it represents: force
    # bias (automatic differentiation of the overlap) and local energy (finite differences, eps = 1e-4) against the
    # mixed estimators <psi|L_g|phi>/<psi|phi> and <psi|H|phi>/<psi|phi> in Fock space
    Lh = [sec.one_body(Lg) for Lg in np.asarray(ham_data["chol"]).reshape(-1, norb, norb)]
    ok_i = [i for i in range(nw) if abs(ov_lib[i]) > 1e-2 * np.linalg.norm(sec.det_state(ups[i], dns[i])) * np.linalg.norm(psi)]
    if ok_i:
        fb_lib = np.asarray(jax.jit(lambda a, b, h, wd: trial.calc_force_bias([a, b], h, wd))(jnp.array(ups), jnp.array(dns), hd, wave_data))
        e_all = np.asarray(jax.jit(lambda a, b, h, wd: trial.calc_energy([a, b], h, wd))(jnp.array(ups), jnp.array(dns), hd, wave_data))
        for i in ok_i:
            phi = sec.det_state(ups[i], dns[i])
            o = np.vdot(psi, phi)
            fbm = np.array([np.vdot(psi, L @ phi) / o for L in Lh])
            if not np.max(np.abs(fb_lib[i] - fbm)) <= 1e-8 * max(1.0, float(np.max(np.abs(fbm)))):
                _bad(ctx, "lists.force_bias_is_not_that_of_the_listed_state", "multislater._calc_force_bias", cfg, walker=i, library=[str(complex(x)) for x in fb_lib[i]], expected=[str(complex(x)) for x in fbm], ref_det=ref)
                break
            em = np.vdot(psi, H @ phi) / o
            if not abs(e_all[i] - em) <= E_TOL_WALKER * max(1.0, abs(em)):
                _bad(ctx, "lists.local_energy_is_not_that_of_the_listed_state", "multislater._calc_energy", cfg, walker=i, library=str(complex(e_all[i])), expected=str(complex(em)), ref_det=ref)
                break
        ctx.probe("mixed_estimators_checked", len(ok_i))
    if e_exact is not None:
        good = [i for i in range(nw) if abs(ov_lib[i]) > 1e-3 * np.linalg.norm(sec.det_state(ups[i], dns[i]))]
        e_lib = np.asarray(jax.jit(lambda a, b, h, wd: trial.calc_energy([a, b], h, wd))(jnp.array(ups), jnp.array(dns), hd, wave_data))
        for i in good:
            if not abs(e_lib[i] - e_exact) <= E_TOL * max(1.0, abs(e_exact)):
                _bad(ctx, "lists.local_energy_of_exact_trial_is_not_the_eigenvalue", "multislater._calc_energy", cfg, walker=i, library=str(complex(e_lib[i])), eigenvalue=e_exact, ref_det=ref)
                break
        ctx.probe("exact_energy_checks", len(good))
        ctx.count("exact_energy_checks", len(good))
    recs.append(arr_hash(ov_lib))
    return {"digest": arr_hash(ov_lib, np.array(ref)), "nontrivial": bool(nonauf),
            "state_keys": [f"lists-{cfg['nelec']}-{cfg['route']}-{cfg['reference']}-{cfg['vector']}-x{cfg['max_excitation']}-{'nonauf' if nonauf else 'auf'}-sd{int(cfg.get('spin_dep', False))}"],
            "sim_steps": nw, "sim_time": 0.0,
            "sample": {"cfg": cfg, "ref_det": ref, "first_determinants": None if dets is None else [list(map(list, d)) for d in dets[:3]],
                       "first_coefficients": None if coeffs is None else coeffs[:3], "eigenvalue": e_exact, "overlap_walker0": str(complex(ov_lib[0]))}}


def _pyscf_addr(norb, occ):
    """Address of an occupation tuple in pyscf's string ordering (strings sorted by integer value)."""
    from pyscf.fci import cistring

    s = sum(1 << p for p in occ)
    return int(cistring.str2addr(norb, len(occ), s))


_HARNESS = {}


def exact_harness(base_name):
    """Harness propagator that additionally records, at every propagate entry inside the
    compiled loops, the largest |Re E_local - E0| over walkers that carry weight."""
    if base_name in _HARNESS:
        return _HARNESS[base_name]
    from functools import partial

    import jax.numpy as jnp
    from jax import jit

    base = lab.harness_class(base_name)

    class ExactHarness(base):
        def init_prop_data(self, trial, wave_data, ham_data, init_walkers=None):
            pd = super().init_prop_data(trial, wave_data, ham_data, init_walkers)
            pd["verif_e0"] = jnp.array(float(E0_PROVIDER[0]))
            pd["verif_max_eloc_dev"] = jnp.array(0.0)
            return pd

        @partial(jit, static_argnums=(0, 1))
        def propagate(self, trial, ham_data, prop_data, fields, wave_data):
            e = trial.calc_energy(prop_data["walkers"], ham_data, wave_data)
            live = (prop_data["weights"] > 0) & jnp.isfinite(jnp.abs(prop_data["overlaps"])) & (jnp.abs(prop_data["overlaps"]) > 1e-8)
            dev = jnp.where(live, jnp.abs(e - prop_data["verif_e0"]), 0.0)
            dev = jnp.where(jnp.isnan(dev), jnp.inf, dev)
            prop_data["verif_max_eloc_dev"] = jnp.maximum(prop_data["verif_max_eloc_dev"], jnp.max(dev))
            return base.propagate(self, trial, ham_data, prop_data, fields, wave_data)

    ExactHarness.__name__ = "ExactHarness_" + base_name
    _HARNESS[base_name] = ExactHarness
    return ExactHarness


E0_PROVIDER = [0.0]


def _exec_driver(cfg, ctx):
    from ad_afqmc import hamiltonian, sampling

    ham_data, sec, H, w, v, rs = build_problem(cfg)
    norb, nelec = cfg["norb"], tuple(cfg["nelec"])
    vec, e0 = choose_vector(cfg, sec, w, v, rs)
    if vec is None:
        ctx.count("precondition_degenerate")
        return {"digest": None, "nontrivial": False}
    lst = make_list(cfg, sec, vec)
    if lst is None:
        ctx.count("precondition_no_reference_candidate")
        return {"digest": None, "nontrivial": False}
    dets, coeffs = lst
    trial, wave_data = trial_from_list(cfg, dets, coeffs, ctx)
    ref = np.asarray(wave_data["ref_det"]).tolist()
    nonauf = not is_aufbau(ref, nelec)
    ctx.probe("non_aufbau_reference", nonauf)
    s = lab.System()
    s.ham = hamiltonian.hamiltonian(norb)
    s.trial, s.wave_data = trial, wave_data
    s.ham_data_raw = {"h0": ham_data["h0"], "h1": ham_data["h1"], "chol": ham_data["chol"], "ene0": 0.0}
    base = "propagator_restricted" if cfg["wt"] == "restricted" else "propagator_unrestricted"
    s.prop = exact_harness(base)(dt=cfg["dt"], n_walkers=cfg["n_walkers"])
    s.plain = lab.make_propagator(base, harness=False, dt=cfg["dt"], n_walkers=cfg["n_walkers"])
    smp = sampling.sampler(cfg["n_prop_steps"], cfg["n_ene_blocks"], cfg["n_sr_blocks"], cfg["n_blocks"])
    opts = lab.default_options(seed=cfg["jax_seed"], ad_mode=cfg["ad_mode"], n_ene_blocks_eql=cfg["n_ene_blocks_eql"], n_sr_blocks_eql=cfg["n_sr_blocks_eql"], n_eql=cfg["n_eql"], save_walkers=True)
    R = cfg["R"]
    site = "driver.afqmc"
    E0_PROVIDER[0] = e0
    fb = {r: cfg["faults"] for r in range(R)} if cfg["faults"] else None
    try:
        out = lab.run_driver_world(s, smp, opts, R, ctx.decider, sched=cfg["sched"], log=EventLog(), faults_by_rank=fb)
    except ValueError as e:
        if "Initial overlaps are zero" in str(e) or "Cannot find a set of RHF orbitals" in str(e):
            ctx.count("precondition_initial_walkers_refused")
            return {"digest": None, "nontrivial": False}
        raise
    except (Deadlock, SimMPIError) as e:
        _bad(ctx, "zero_variance.driver_failed", site, cfg, error=str(e))
        return {"digest": None, "nontrivial": False}
    tol = E_TOL * max(1.0, abs(e0))
    tol_w = E_TOL_WALKER * max(1.0, abs(e0))
    nf = 0
    for r in range(R):
        items = out["pickles"].get(r) or []
        if len(items) != cfg["n_blocks"]:
            raise HarnessError(f"rank {r}: {len(items)} pickles, expected {cfg['n_blocks']}")
        last = items[-1]
        dev = float(np.asarray(last["verif_max_eloc_dev"]))
        nprop = float(np.asarray(last["verif_nprop"]))
        nf += float(np.asarray(last["verif_n_faults"]))
        if nprop < 50:
            raise HarnessError("in-loop local-energy monitor did not run")
        if not dev <= tol_w:
            _bad(ctx, "zero_variance.local_energy_of_some_walker_is_not_the_eigenvalue", site, cfg, rank=r, max_deviation=dev, eigenvalue=e0, ref_det=ref, propagate_entries=nprop)
        ctx.count("local_energies_monitored", int(nprop) * cfg["n_walkers"])
    rows = lab.parse_samples(out["files"].get("samples_raw.dat", b""))
    if rows.shape[0] != R * cfg["n_blocks"]:
        _bad(ctx, "zero_variance.samples_raw_rows", site, cfg, rows=int(rows.shape[0]))
    else:
        # a block whose population is extinct (total weight 0) has no energy: 0/0
        alive = rows[:, 0] > 0
        extinct = int(np.sum(~alive))
        if extinct:
            ctx.count("blocks_with_extinct_population", extinct)
        if np.any(alive) and not np.all(np.abs(rows[alive, 1] - e0) <= tol):
            _bad(ctx, "zero_variance.block_energy_is_not_the_eigenvalue", site, cfg, block_energies=rows[:, 1].tolist(), block_weights=rows[:, 0].tolist(), eigenvalue=e0, ref_det=ref)
        ret = out["returns"][0][0]
        if not extinct and (ret is None or not abs(float(ret) - e0) <= tol):
            _bad(ctx, "zero_variance.returned_energy_is_not_the_eigenvalue", site, cfg, returned=str(ret), eigenvalue=e0)
    ctx.probe("driver_runs", 1)
    ctx.probe("exact_energy_checks", int(rows.shape[0]))
    ctx.probe("fault_fired", nf)
    wld = out["world"]
    for k in ("eager", "rendezvous", "collectives", "sched_decisions"):
        ctx.count(k, wld.stats[k])
    n = 50 + cfg["n_blocks"] * cfg["n_prop_steps"] * cfg["n_ene_blocks"] * cfg["n_sr_blocks"]
    return {"digest": arr_hash(rows), "nontrivial": bool(nonauf), "sched_key": arr_hash(np.array(wld.sched_trace, dtype=np.int64)),
            "state_keys": [f"driver-R{R}-{cfg['wt']}-{cfg['nelec']}-{cfg['route']}-{cfg['reference']}-{'nonauf' if nonauf else 'auf'}-f{int(nf > 0)}"],
            "sim_steps": n * R, "sim_time": n * R * cfg["dt"],
            "sample": {"cfg": cfg, "ref_det": ref, "eigenvalue": e0, "block_energies": rows[:, 1].tolist()[:6], "returned": str(out["returns"][0])}}


def shrink_candidates(cfg, decisions):
    from ..shrink import decision_candidates

    if cfg.get("faults"):
        yield dict(cfg, faults=[]), decisions
    for k, v in (("route", "state"), ("reference", "largest"), ("strength", 0.3), ("vector", "eigen0")):
        if cfg.get(k) != v and not (k == "route" and cfg["route"] == "pyscf"):
            yield dict(cfg, **{k: v}), decisions
    if cfg["kind"] == "driver":
        for d in decision_candidates(decisions):
            yield cfg, d
