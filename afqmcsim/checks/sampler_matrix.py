"""C12 - all sampler entry points compute the same, correct block estimator.

Every run is one cell of the option matrix (ad_mode x orbital_rotation x do_sr x
walker_type x n_batch x block/step counts) with a trial converged by the library's own
optimiser, executed
  * "cross": plain entry point vs one AD entry point called through jvp/vjp as
    driver.afqmc does, both against the step-by-step replay model and against the
    estimator definition (weight-averaged capped real local energy);
  * "batch": the same cell at two batch counts;
  * "driver": a complete driver.afqmc run on 1-3 simulated ranks executed twice under
    two different PRNG-chosen rank schedules / eager-rendezvous patterns / clock-jump
    plans (and, for one rank, on config.not_a_comm): bytes of samples_raw.dat and the
    returned energy must be identical; some runs are repeated in a fresh interpreter
    under another PYTHONHASHSEED.
"""
import itertools
import json
import os
import random
import subprocess
import sys

import numpy as np

from .. import env, lab
from ..core import Decider, EventLog, arr_hash, canon
from ..models import replay
from ..simmpi import SimMPIError
from ..world import Deadlock

ID = "C12"
NAME = "sampler_matrix"
TITLE = "All sampler entry points compute the same, correct block estimator"

MENU = {"quick": 64, "thorough": 256}
TIERS = {
    "quick": dict(runs=64 * 6, budget_s=330, recheck=2, shrink_s=60.0, run_timeout_s=900),
    "thorough": dict(runs=256 * 60, budget_s=1200, recheck=6, shrink_s=180.0, run_timeout_s=1800),
}

RULE = (
    "run i uses compiled-menu entry i mod M; the menu enumerates (shuffled once, fixed) the option matrix ad_mode x orbital_rotation "
    "x do_sr x walker_type x n_batch x block/step counts in three kinds: cross (plain vs AD entry point vs replay model vs estimator "
    "definition), batch (two batch counts), driver (complete driver.afqmc on 1-3 simulated ranks run twice under different schedules, "
    "plus not_a_comm and fresh-interpreter repeats). Hamiltonian, JAX seed and schedules are drawn from sha256(seed|C12|i). "
    "Non-trivial = at least 2 propagation steps and a non-identity weight vector; distinct = distinct digest of outputs."
)
ASSUMPTIONS = [
    "trial converged by an independent NumPy Hartree-Fock solver (models/scf.py); runs where it does not converge, the aufbau gap is < 1e-3 or the plain Roothaan iteration is unstable at the solution are counted as precondition failures, not checked",
    "cross-entry-point energy equality: 1e-9 relative without orbital relaxation, 1e-6 with it (the relaxed orbitals equal the converged ones only to SCF round-off amplified by 30 plain Roothaan steps)",
    "bit reproducibility is demanded of the program under a fixed XLA CPU configuration (single-threaded eigen, one intra-op thread), as the library itself configures",
]
COMPONENTS = {
    "real": ["ad_afqmc.sampling.sampler (all six phaseless entry points)", "ad_afqmc.driver.afqmc", "ad_afqmc.propagation", "ad_afqmc.wavefunctions rhf/uhf/noci incl. optimize", "ad_afqmc.sr", "ad_afqmc.config.not_a_comm", "jax / XLA CPU"],
    "stub": ["mpi4py.MPI -> SimComm/SimWorld", "wall clock -> simulated clock with jumps", "stdout -> buffer"],
}
REQUIRED_PROBES = {"quick": ["cross_runs", "batch_runs", "driver_runs", "estimator_identity_checked", "independent_estimator_checked", "schedules_differed", "not_a_comm_runs"],
                   "thorough": ["cross_runs", "batch_runs", "driver_runs", "estimator_identity_checked", "schedules_differed", "fresh_interpreter_runs", "not_a_comm_runs"]}

AD_ENTRIES = ["ad", "ad_nosr", "ad_norot", "ad_nosr_norot"]


def _menu():
    cross = [dict(kind="cross", wt=wt, entry=en, ad_mode=mode, n_batch=nb)
             for wt, en, mode, nb in itertools.product(["restricted", "unrestricted"], AD_ENTRIES, ["forward", "reverse"], [1, 2])]
    driver = [dict(kind="driver", wt=wt, ad_mode=mode, orbital_rotation=rot, do_sr=sr)
              for wt, mode, rot, sr in itertools.product(["restricted", "unrestricted"], [None, "forward", "reverse"], [True, False], [True, False])]
    batch = [dict(kind="batch", wt=wt, entry=en, ad_mode=mode)
             for wt, (en, mode) in itertools.product(["restricted", "unrestricted"], [("plain", None), ("ad", "forward"), ("ad_nosr_norot", "reverse"), ("ad_norot", "forward")])]
    rng = random.Random(120012)
    out = []
    pools = [cross, driver, batch]
    for p in pools:
        rng.shuffle(p)
    idx = [0, 0, 0]
    seen = {}
    pattern = [0, 1, 0, 2]  # cross, driver, cross, batch
    for k in range(max(MENU.values())):
        j = pattern[k % 4]
        m = dict(pools[j][idx[j] % len(pools[j])])
        idx[j] += 1
        r = random.Random(120100 + k)
        if m["wt"] == "restricted":
            # RHF trial, or (documented layout) an open- or closed-shell UHF trial with restricted walkers
            m["trial"] = r.choice(["rhf", "rhf", "uhf"])
            m["nelec"] = [2, 2] if m["trial"] == "rhf" else r.choice([[2, 1], [2, 2], [3, 1]])
        else:
            m["trial"] = r.choice(["uhf", "uhf", "uhf", "noci"])
            m["nelec"] = r.choice([[2, 1], [2, 2], [1, 1]])
        m["norb"] = 4
        m["nchol"] = r.choice([2, 3])
        m["n_walkers"] = r.choice([4, 6, 8])
        m["dt"] = r.choice([0.01, 0.05, 0.1])
        m["n_prop_steps"] = r.choice([1, 2, 3])
        # block structure cycles per (kind, entry point) so that every entry point meets
        # n_ene_blocks != n_sr_blocks, single and multiple energy blocks
        key = (m["kind"], m.get("entry"), m.get("orbital_rotation"), m.get("do_sr"))
        structs = [(2, 1), (1, 1), (3, 2), (1, 2), (3, 1), (2, 2)]
        m["n_ene_blocks"], m["n_sr_blocks"] = structs[seen.get(key, 0) % len(structs)]
        seen[key] = seen.get(key, 0) + 1
        if m["kind"] == "driver":
            m["R"] = r.choice([1, 2, 3])
            m["n_blocks"] = r.choice([1, 2, 3])
            m["n_eql"] = r.choice([1, 2])
            m["n_ene_blocks_eql"] = 1
            m["n_sr_blocks_eql"] = r.choice([1, 2])
            m["n_batch"] = r.choice([1, 2])
            if random.Random(121400 + k).random() < 0.3:
                m["n_eql"] = 0  # no equilibration sweeps (a restart from stored walkers): the first AD block is the first sampler call
            if random.Random(121200 + k).random() < 0.25:
                # the fourth documented ad_mode: its own sampler entry point (propagate_phaseless_ad_1), reverse mode w.r.t. the two-body operator
                m["ad_mode"] = "2rdm"
        if m["kind"] == "batch":
            m["n_walkers"] = r.choice([4, 6, 8])
            nb = [b for b in (1, 2, m["n_walkers"]) ]
            m["n_batch_pair"] = r.choice([[1, 2], [1, m["n_walkers"]], [2, m["n_walkers"]]])
        if m["kind"] != "batch":
            nb0 = m.get("n_batch")
            lab.corner_override(m, k, 12, empty_ok=False)  # AD entry points: jax's det derivative fails on 0 x 0 blocks
            if m.get("corner") != "one_or_two_walkers" and nb0 is not None:
                m["n_batch"] = nb0
            if m["trial"] == "ghf":
                m["trial"] = "noci"  # the independent SCF that hands C12 its converged trial knows RHF/UHF/NOCI trials only
            r3 = random.Random(121300 + k)
            if m.get("corner") is None and r3.random() < 0.14:
                # the hand-coded CI trials of production runs
                if m["wt"] == "restricted" and m["trial"] == "rhf":
                    m["trial"], m["corner"] = "cisd", "cisd_trial"
                elif m["wt"] == "unrestricted" and m["trial"] in ("uhf", "noci"):
                    m["trial"], m["corner"] = "ucisd", "ucisd_trial"
                if m.get("corner") in ("cisd_trial", "ucisd_trial") and m["kind"] == "cross" and r3.random() < 0.7:
                    # the cell in which the returned population is the measured one: independent estimator applicable
                    m["entry"] = r3.choice(["ad_nosr", "ad_nosr_norot"])
                    m["n_ene_blocks"], m["n_sr_blocks"] = 1, 1
        out.append(m)
    return out


_MENU_CACHE = []


def menu_entry(k):
    if not _MENU_CACHE:
        _MENU_CACHE.extend(_menu())
    return _MENU_CACHE[k]


def gen_cfg(seed, index, tier):
    m = dict(menu_entry(index % MENU[tier]))
    rng = random.Random(seed)
    m["menu"] = index % MENU[tier]
    m["ham_seed"] = rng.randrange(1, 2**31 - 1)
    m["strength"] = rng.choice([0.2, 0.35, 0.5])
    m["mix"] = 0.0
    m["spin_dep"] = m["wt"] == "unrestricted" and rng.random() < 0.5 and m.get("trial") != "rhf"
    m["jax_seed"] = rng.randrange(1, 2**20)
    m["sched_a"] = {"policy": rng.choice(["random", "sticky", "straggler", "reverse"]), "straggler": rng.randrange(3), "p_rendezvous": rng.choice([0.0, 0.5, 1.0]), "p_clock_jump": rng.choice([0.0, 0.2])}
    m["sched_b"] = {"policy": rng.choice(["random", "sticky", "straggler", "reverse"]), "straggler": rng.randrange(3), "p_rendezvous": rng.choice([0.0, 0.5, 1.0]), "p_clock_jump": rng.choice([0.0, 0.2])}
    m["fresh"] = m["kind"] in ("driver", "cross") and rng.random() < (0.04 if tier == "quick" else 0.01)
    # "the same state" need not be a fresh one: most cross/batch runs start from the state a
    # driver hands over (after one sampler call + QR + reconfiguration + estimate update)
    m["warm"] = m["kind"] in ("cross", "batch") and rng.random() < 0.7
    return m


def group_of(cfg):
    return f"m{cfg['menu']:03d}"


def group_of_index(seed, index, tier):
    return f"m{index % MENU[tier]:03d}"


def spec_of(cfg, n_batch=None):
    sp = {k: cfg[k] for k in ("norb", "nelec", "nchol", "wt", "trial", "n_walkers", "dt", "ham_seed", "strength", "mix", "spin_dep")}
    sp["n_batch"] = n_batch if n_batch is not None else cfg.get("n_batch", 1)
    sp["n_exp_terms"] = 6
    return sp


def converge_trial(s, ctx=None):
    """Give the cell a converged trial.  The Hartree-Fock solution comes from an independent
    NumPy solver (afqmcsim.models.scf), not from the library's own optimiser - a library
    optimiser that is wrong would otherwise define what "converged" means.  Preconditions
    (else the run is counted and skipped): the solver converged, the aufbau gap is > 1e-3 and
    the plain Roothaan iteration (which the library runs 30 times inside the orbital-relaxation
    entry points) is stable at the solution."""
    import jax.numpy as jnp

    from ..models import scf

    trial = s.trial
    kind = type(trial).__name__
    if kind in ("noci", "cisd", "ucisd"):
        return True  # no orbital relaxation for these trials (optimize is the identity)
    h1 = np.asarray(s.ham_data_raw["h1"])
    chol = np.asarray(s.ham_data_raw["chol"])
    wd = dict(s.wave_data)
    if kind == "rhf":
        c0 = np.asarray(wd["mo_coeff"])
        r = scf.solve(h1, chol, trial.nelec, c0, c0, restricted=True)
        new = jnp.array(r["ca"])
    else:
        c0a, c0b = np.asarray(wd["mo_coeff"][0]), np.asarray(wd["mo_coeff"][1])
        # wave_data["rdm1"] is an input of its own (it only fixes the mean-field shift and "may be approximate"): in a third
        # of the spin-symmetric UHF cells the independent solver starts from different random orbitals per spin, and if it
        # ends in a symmetry-broken solution the cell hands in the *spin-averaged* density as rdm1 - the situation in which
        # code that confuses the two (e.g. starts the orbital relaxation from rdm1) is trapped on the restricted solution
        approx_rdm1 = (not s.spec.get("spin_dep")) and s.spec["ham_seed"] % 3 == 0
        if approx_rdm1:
            rs_ = np.random.RandomState((s.spec["ham_seed"] + 17) % (2**32 - 1))
            c0a = np.linalg.qr(rs_.normal(size=c0a.shape))[0]
            c0b = np.linalg.qr(rs_.normal(size=c0b.shape))[0]
        r = scf.solve(h1, chol, trial.nelec, c0a, c0b)
        new = [jnp.array(r["ca"]), jnp.array(r["cb"])]
    if not (r["converged"] and r["stable"] and r["gap"] > 1e-3):
        return False
    wd["mo_coeff"] = new
    if kind == "uhf" and approx_rdm1 and np.max(np.abs(r["da"] - r["db"])) > 1e-2:
        avg = (r["da"] + r["db"]) / 2
        wd["rdm1"] = jnp.array(np.array([avg, avg]))
        if ctx is not None:
            ctx.probe("spin_averaged_rdm1_with_symmetry_broken_trial", 1)
    s.wave_data = wd
    hd = s.ham.build_measurement_intermediates(dict(s.ham_data_raw), trial, wd)
    s.ham_data = s.ham.build_propagation_intermediates(hd, s.prop, trial, wd)
    return True


def capped_estimator(s, pd, ham_data=None, wave_data=None):
    """Definition of the block estimator for one energy block, from the public API."""
    ham_data = ham_data if ham_data is not None else s.ham_data
    wave_data = wave_data if wave_data is not None else s.wave_data
    _, calc_energy = replay.public_calls(s.trial)
    e = np.real(np.asarray(calc_energy(pd["walkers"], ham_data, wave_data)))
    est = float(np.asarray(pd["e_estimate"]))
    cap = np.sqrt(2.0 / s.prop.dt)
    e = np.where(np.abs(e - est) > cap, est, e)
    w = np.asarray(pd["weights"])
    return float(np.sum(e * w) / np.sum(w)), e


def fock_estimator(cfg, s, pd, wave_data):
    """Weight-averaged capped real local energy of the population in pd, with the local energies
    <psi_T|H|phi>/<psi_T|phi> evaluated in Fock space from the Hamiltonian as supplied."""
    from ..models import fock

    kind = type(s.trial).__name__
    if kind not in ("rhf", "uhf", "noci", "cisd", "ucisd"):
        return None
    norb, nelec = cfg["norb"], tuple(cfg["nelec"])
    sec = fock.Sector(norb, nelec)
    raw = s.ham_data_raw
    H = sec.hamiltonian(float(np.asarray(raw["h0"])), np.asarray(raw["h1"]), np.asarray(raw["chol"]))
    if kind == "cisd":
        # hand-coded CI trials are given as routines only: their state is the bra their overlap routine defines
        import jax.numpy as jnp

        psi = fock.extract_bra(sec, lambda w: s.trial._calc_overlap_restricted(jnp.array(w), wave_data), restricted=True, seed=cfg["ham_seed"] % (2**31))
    elif kind == "ucisd":
        import jax.numpy as jnp

        psi = fock.extract_bra(sec, lambda u, d: s.trial._calc_overlap(jnp.array(u), jnp.array(d), wave_data), restricted=False, seed=cfg["ham_seed"] % (2**31))
    else:
        psi = fock.trial_state(sec, kind, wave_data)
    if isinstance(pd["walkers"], list):
        ups, dns = np.asarray(pd["walkers"][0]), np.asarray(pd["walkers"][1])
    else:
        w = np.asarray(pd["walkers"])
        ups, dns = w[:, :, : nelec[0]], w[:, :, : nelec[1]]
    wts = np.asarray(pd["weights"])
    est = float(np.asarray(pd["e_estimate"]))
    cap = np.sqrt(2.0 / s.prop.dt)
    e = np.zeros(len(wts))
    for i in range(len(wts)):
        if wts[i] > 0:
            phi = sec.det_state(ups[i], dns[i])
            el = float(np.real(np.vdot(psi, H @ phi) / np.vdot(psi, phi)))
            if abs(abs(el - est) - cap) < 1e-6 * cap:
                return None  # at the capping threshold: not decidable
            e[i] = est if abs(el - est) > cap else el
    if float(np.sum(wts)) <= 0:
        return None
    return float(np.sum(e * wts) / np.sum(wts))


def _start_state(cfg, s, smp):
    """Fresh state, or (warm) the state the driver hands to the sampler from its second
    sweep on: pop_control_ene_shift != e_estimate, diverse walkers, weights after SR."""
    pd0 = lab.init_state(s, cfg["jax_seed"], harness=False)
    if cfg.get("warm"):
        # through the cell's own entry point: the no-SR entry points leave uneven weights, so the driver's
        # reconfiguration that follows really changes the population (and leaves the stored overlaps stale)
        entry, mode = cfg.get("entry", "plain"), cfg.get("ad_mode")
        if entry == "plain":
            mode = None
        e, _, pd1 = lab.call_entry(s, smp, entry, mode, pd0, prop=s.plain)
        if np.isfinite(float(np.asarray(e))) and float(np.sum(np.asarray(pd1["weights"]))) > 0:
            pd0 = lab.driver_glue(s, pd1, e, prop=s.plain)
    return pd0


def _state_hash(e, pd):
    ws = pd["walkers"] if isinstance(pd["walkers"], list) else [pd["walkers"]]
    return arr_hash(np.asarray(e), np.asarray(pd["weights"]), np.asarray(pd["overlaps"]), *[np.asarray(x) for x in ws])


def _bad(ctx, klass, site, cfg, **d):
    d["trigger"] = {"kind": cfg["kind"], "entry": cfg.get("entry", "driver"), "ad_mode": cfg.get("ad_mode"), "wt": cfg["wt"]}
    d["menu"] = cfg["menu"]
    ctx.violation(klass, site, d)


def _call(ctx, cfg, s, smp, entry, mode, pd, site):
    try:
        return lab.call_entry(s, smp, entry, mode, pd, prop=s.plain)
    except Exception as e:  # noqa: BLE001 - "is callable" is part of the property
        _bad(ctx, "sampler.entry_point_not_callable", site, cfg, error=f"{type(e).__name__}: {str(e)[:400]}")
        return None


def _num(x):
    x = np.asarray(x)
    return complex(x) if np.iscomplexobj(x) else float(x)


def _eq(a, b, rtol):
    if np.iscomplexobj(np.asarray(a)) or np.iscomplexobj(np.asarray(b)):
        return False
    a, b = float(np.asarray(a)), float(np.asarray(b))
    return abs(a - b) <= rtol * max(1.0, abs(b)) or (np.isnan(a) and np.isnan(b))


def execute(cfg, ctx):
    from ad_afqmc import sampling

    if cfg["kind"] == "driver":
        out = _execute_driver(cfg, ctx)
    elif cfg["kind"] == "batch":
        out = _execute_batch(cfg, ctx)
    else:
        out = _execute_cross(cfg, ctx)
    if cfg.get("fresh") and not os.environ.get("AFQMCSIM_FRESH_CHILD") and out.get("digest"):
        d2 = fresh_interpreter_digest(cfg, ctx.decider.trace)
        if d2.startswith("fresh-run-failed"):
            # the child interpreter did not finish (e.g. timed out on a loaded machine): nothing to compare
            ctx.count("fresh_interpreter_runs_not_completed")
            return out
        ctx.probe("fresh_interpreter_runs", 1)
        if d2 != out["digest"]:
            _bad(ctx, "sampler.not_bit_reproducible_in_fresh_interpreter", "driver.afqmc" if cfg["kind"] == "driver" else "sampler", cfg,
                 digest_here=out["digest"], digest_fresh=d2)
    return out


def fresh_interpreter_digest(cfg, decisions):
    """Same cfg and decision list in a new interpreter under another PYTHONHASHSEED."""
    import tempfile

    with tempfile.NamedTemporaryFile("w", suffix=".json", delete=False, dir=env.scratch_root()) as f:
        json.dump({"cfg": cfg, "decisions": list(decisions)}, f)
        path = f.name
    try:
        e = env.child_env({"PYTHONHASHSEED": "4242", "AFQMCSIM_FRESH_CHILD": "1", "VERIF_HASHSEED": "4242"})
        try:
            p = subprocess.run([sys.executable, os.path.join(env.VERIF_ROOT, "check.py"), ID, "--digest-of", path], env=e, capture_output=True, text=True, timeout=900)
        except subprocess.TimeoutExpired:
            return "fresh-run-failed: timeout"
        for line in p.stdout.splitlines():
            if line.startswith("DIGEST "):
                return line.split()[1]
        return "fresh-run-failed: " + (p.stdout + p.stderr)[-400:]
    finally:
        os.unlink(path)


def _execute_cross(cfg, ctx):
    from ad_afqmc import sampling

    s = lab.build_system(spec_of(cfg), harness=False)
    if not converge_trial(s, ctx):
        ctx.count("precondition_trial_not_converged")
        return {"digest": None, "nontrivial": False}
    smp = sampling.sampler(cfg["n_prop_steps"], cfg["n_ene_blocks"], cfg["n_sr_blocks"], 1)
    entry, mode = cfg["entry"], cfg["ad_mode"]
    site_p = "sampler.propagate_phaseless"
    site_a = "sampler.propagate_phaseless_" + entry
    pd0 = _start_state(cfg, s, smp)
    rot = entry in ("ad", "ad_nosr")
    # with orbital relaxation the library re-runs 30 Roothaan steps from the converged trial: the relaxed orbitals
    # equal the converged ones only to SCF round-off times the iteration's contraction/expansion (thorough tier:
    # 2 of 14291 runs at 1.6e-8 relative); a wrong optimiser or entry point moves the energy by >= 1e-4
    tol = 1e-6 if rot else 1e-9
    rp = _call(ctx, cfg, s, smp, "plain", None, pd0, site_p)
    ra = _call(ctx, cfg, s, smp, entry, mode, pd0, site_a)
    ctx.probe("cross_runs", 1)
    if rp is None or ra is None:
        return {"digest": None, "nontrivial": False}
    e_p, _, pd_p = rp
    e_a, der, pd_a = ra
    # bit reproducibility in the same process
    rp2 = _call(ctx, cfg, s, smp, "plain", None, pd0, site_p)
    ra2 = _call(ctx, cfg, s, smp, entry, mode, pd0, site_a)
    if _state_hash(e_p, pd_p) != _state_hash(rp2[0], rp2[2]):
        _bad(ctx, "sampler.not_bit_reproducible", site_p, cfg)
    if _state_hash(e_a, pd_a) != _state_hash(ra2[0], ra2[2]):
        _bad(ctx, "sampler.not_bit_reproducible", site_a, cfg)
    # replay model
    info = {}
    er_p, pdr_p, blk_p = replay.replay_entry(s, smp, "plain", pd0, s.plain, info=info)
    er_a, pdr_a, blk_a = replay.replay_entry(s, smp, entry, pd0, s.plain)
    if not _eq(e_p, er_p, 1e-9):
        _bad(ctx, "sampler.energy_differs_from_replay", site_p, cfg, sampler=_num(e_p), replay=er_p)
    if not _eq(e_a, er_a, 1e-9):
        _bad(ctx, "sampler.energy_differs_from_replay", site_a, cfg, sampler=_num(e_a), replay=er_a)
    if not np.allclose(np.asarray(pd_a["weights"]), np.asarray(pdr_a["weights"]), rtol=1e-9, atol=1e-12, equal_nan=True):
        _bad(ctx, "sampler.weights_differ_from_replay", site_a, cfg, sampler=np.asarray(pd_a["weights"]).tolist(), replay=np.asarray(pdr_a["weights"]).tolist())
    # same block structure -> same energy
    sr_entry = entry in ("ad", "ad_norot")
    if sr_entry or cfg["n_sr_blocks"] == 1:
        if not _eq(e_a, e_p, tol):
            _bad(ctx, "sampler.entry_points_disagree", site_a, cfg, plain=_num(e_p), ad=_num(e_a), n_sr_blocks=cfg["n_sr_blocks"])
        ctx.count("entry_point_pairs_compared")
    if sr_entry:
        if not np.allclose(np.asarray(pd_a["weights"]), np.asarray(pd_p["weights"]), rtol=10 * tol, atol=1e-12, equal_nan=True):
            _bad(ctx, "sampler.entry_points_disagree_on_weights", site_a, cfg, plain=np.asarray(pd_p["weights"]).tolist(), ad=np.asarray(pd_a["weights"]).tolist())
    # estimator definition, single energy block
    if cfg["n_ene_blocks"] == 1 and cfg["n_sr_blocks"] == 1:
        w_pre, e_pre = blk_p["pre_sr"][0]
        if float(np.sum(w_pre)) > 0:
            # SR entry points: the population that was measured is the replay model's pre-SR one
            want = float(np.sum(e_pre * w_pre) / np.sum(w_pre))
            if not _eq(e_p, want, 1e-9):
                _bad(ctx, "sampler.energy_is_not_weighted_capped_mean", site_p, cfg, energy=_num(e_p), definition=want)
            if not sr_entry:
                # no-SR entry points return the measured population itself
                wd = s.wave_data
                hd = s.ham_data
                if rot:
                    wd = s.trial.optimize(dict(s.ham_data), dict(s.wave_data))
                    hd = s.ham.build_measurement_intermediates(dict(s.ham_data), s.trial, wd)
                want2, _ = capped_estimator(s, pd_a, hd, wd)
                if not _eq(e_a, want2, 1e-9):
                    _bad(ctx, "sampler.energy_is_not_weighted_capped_mean", site_a, cfg, energy=_num(e_a), definition=want2)
                # the same definition with local energies computed independently of the library
                # (Fock-space mixed estimator of the Hamiltonian as supplied)
                want3 = fock_estimator(cfg, s, pd_a, wd)
                if want3 is not None:
                    # the hand-coded CISD energy contracts one term in single precision on purpose
                    if not _eq(e_a, want3, 2e-6 if cfg["trial"] in ("cisd", "ucisd") else 1e-8):
                        _bad(ctx, "sampler.energy_is_not_weighted_capped_mean_of_true_local_energies", site_a, cfg, energy=_num(e_a), independent=want3, library_definition=want2)
                    ctx.probe("independent_estimator_checked", 1)
            ctx.probe("estimator_identity_checked", 1)
    if der is not None and mode == "forward":
        ctx.count("forward_derivative_finite", int(np.isfinite(float(np.asarray(der)))))
    w = np.asarray(pd_p["weights"])
    nsteps = cfg["n_prop_steps"] * cfg["n_ene_blocks"] * cfg["n_sr_blocks"]
    return {
        "digest": arr_hash(np.frombuffer((_state_hash(e_p, pd_p) + _state_hash(e_a, pd_a)).encode(), np.uint8)),
        "nontrivial": nsteps >= 2 and float(np.ptp(np.asarray(blk_p["pre_sr"][0][0]))) > 0,
        "state_keys": [f"cross-{entry}-{mode}-{cfg['wt']}-{cfg['trial']}-nb{cfg['n_batch']}-sr{cfg['n_sr_blocks']}-e{cfg['n_ene_blocks']}"],
        "sim_steps": 2 * nsteps,
        "sim_time": 2 * nsteps * cfg["dt"],
        "sample": {"cfg": {k: v for k, v in cfg.items() if not k.startswith("sched")}, "energy_plain": _num(e_p), "energy_ad_primal": _num(e_a), "energy_replay": er_p,
                   "weights_plain": w.tolist()},
    }


def _execute_batch(cfg, ctx):
    from ad_afqmc import sampling

    entry, mode = cfg["entry"], cfg["ad_mode"]
    site = "sampler.propagate_phaseless" + ("" if entry == "plain" else "_" + entry)
    res = []
    for nb in cfg["n_batch_pair"]:
        s = lab.build_system(spec_of(cfg, n_batch=nb), harness=False)
        if not converge_trial(s, ctx):
            ctx.count("precondition_trial_not_converged")
            return {"digest": None, "nontrivial": False}
        smp = sampling.sampler(cfg["n_prop_steps"], cfg["n_ene_blocks"], cfg["n_sr_blocks"], 1)
        pd0 = _start_state(cfg, s, smp)
        r = _call(ctx, cfg, s, smp, entry, mode, pd0, site)
        if r is None:
            return {"digest": None, "nontrivial": False}
        res.append((nb, r))
    ctx.probe("batch_runs", 1)
    (nb1, (e1, _, pd1)), (nb2, (e2, _, pd2)) = res
    er, pdr, _ = replay.replay_entry(s, smp, entry, pd0, s.plain)
    if not _eq(e2, er, 1e-9):
        _bad(ctx, "sampler.energy_differs_from_replay", site, cfg, sampler=float(np.asarray(e2)), replay=er)
    if not _eq(e1, e2, 1e-10):
        _bad(ctx, "sampler.depends_on_batch_count", site, cfg, n_batch=[nb1, nb2], energies=[_num(e1), _num(e2)])
    if not np.allclose(np.asarray(pd1["weights"]), np.asarray(pd2["weights"]), rtol=1e-10, atol=1e-13, equal_nan=True):
        _bad(ctx, "sampler.depends_on_batch_count", site, cfg, n_batch=[nb1, nb2], weights=[np.asarray(pd1["weights"]).tolist(), np.asarray(pd2["weights"]).tolist()])
    wa = pd1["walkers"] if isinstance(pd1["walkers"], list) else [pd1["walkers"]]
    wb = pd2["walkers"] if isinstance(pd2["walkers"], list) else [pd2["walkers"]]
    live = np.asarray(pd1["weights"]) > 0
    for x, y in zip(wa, wb):
        if not np.allclose(np.asarray(x)[live], np.asarray(y)[live], rtol=1e-9, atol=1e-10, equal_nan=True):
            _bad(ctx, "sampler.depends_on_batch_count", site, cfg, n_batch=[nb1, nb2], what="walkers")
            break
    nsteps = cfg["n_prop_steps"] * cfg["n_ene_blocks"] * cfg["n_sr_blocks"]
    return {
        "digest": _state_hash(e1, pd1),
        "nontrivial": nsteps >= 2,
        "state_keys": [f"batch-{entry}-{mode}-{cfg['wt']}-{cfg['n_batch_pair']}"],
        "sim_steps": 2 * nsteps, "sim_time": 2 * nsteps * cfg["dt"],
        "sample": {"cfg": {k: v for k, v in cfg.items() if not k.startswith("sched")}, "energies": [_num(e1), _num(e2)]},
    }


def _execute_driver(cfg, ctx):
    from ad_afqmc import sampling

    s = lab.build_system(spec_of(cfg), harness=False)
    if not converge_trial(s, ctx):
        ctx.count("precondition_trial_not_converged")
        return {"digest": None, "nontrivial": False}
    smp = sampling.sampler(cfg["n_prop_steps"], cfg["n_ene_blocks"], cfg["n_sr_blocks"], cfg["n_blocks"])
    R = cfg["R"]
    opts = lab.default_options(seed=cfg["jax_seed"], ad_mode=cfg["ad_mode"], n_ene_blocks_eql=cfg["n_ene_blocks_eql"], n_sr_blocks_eql=cfg["n_sr_blocks_eql"],
                               n_eql=cfg["n_eql"], orbital_rotation=cfg["orbital_rotation"], do_sr=cfg["do_sr"], save_walkers=False)
    site = "driver.afqmc"
    outs = []
    variants = [("sched_a", cfg["sched_a"], False), ("sched_b", cfg["sched_b"], False)]
    if R == 1:
        variants.append(("not_a_comm", None, True))
    for name, sched, nac in variants:
        log = EventLog()
        try:
            o = lab.run_driver_world(s, smp, opts, R, ctx.decider, sched=sched, log=log, prop=s.plain, use_not_a_comm=nac)
        except Deadlock as e:
            _bad(ctx, "sampler.driver_deadlock", site, cfg, error=str(e), variant=name)
            return {"digest": None, "nontrivial": False}
        except SimMPIError as e:
            _bad(ctx, "sampler.driver_mpi_abort", site, cfg, error=str(e), variant=name)
            return {"digest": None, "nontrivial": False}
        except Exception as e:  # noqa: BLE001 - callable for every documented option combination
            from ..core import HarnessError

            if isinstance(e, HarnessError):
                raise
            _bad(ctx, "sampler.option_combination_not_callable", site, cfg, error=f"{type(e).__name__}: {str(e)[:400]}", variant=name)
            return {"digest": None, "nontrivial": False}
        outs.append((name, o))
        if nac:
            ctx.probe("not_a_comm_runs", 1)
    ctx.probe("driver_runs", 1)
    ctx.probe("two_rdm_mode_runs", cfg["ad_mode"] == "2rdm")
    ref_name, ref = outs[0]
    raw0 = ref["files"].get("samples_raw.dat", b"")
    for name, o in outs[1:]:
        raw = o["files"].get("samples_raw.dat", b"")
        if raw != raw0:
            _bad(ctx, "sampler.driver_output_depends_on_schedule", site, cfg, variants=[ref_name, name], a=raw0.decode()[:400], b=raw.decode()[:400])
        ra, rb = ref["returns"][0], o["returns"][0]
        same = all((x == y) or (x is None and y is None) or (isinstance(x, float) and isinstance(y, float) and np.isnan(x) and np.isnan(y)) or (np.asarray(x == y).all()) for x, y in zip(ra, rb))
        if not same and not (np.isnan(float(ra[0])) and np.isnan(float(rb[0]))):
            _bad(ctx, "sampler.driver_output_depends_on_schedule", site, cfg, variants=[ref_name, name], returned=[str(ra), str(rb)])
        if R > 1 and o["world"].sched_trace != ref["world"].sched_trace:
            ctx.probe("schedules_differed", 1)
    # all ranks receive the same final answer
    rets = ref["returns"]
    for r in range(1, R):
        if str(rets[r]) != str(rets[0]):
            _bad(ctx, "sampler.ranks_return_different_energies", site, cfg, returns=[str(x) for x in rets])
    w = ref["world"]
    for k in ("eager", "rendezvous", "collectives", "sched_decisions", "clock_jumps"):
        ctx.count(k, sum(o["world"].stats[k] for _, o in outs))
    rows = lab.parse_samples(raw0)
    nsteps = cfg["n_eql"] * cfg["n_sr_blocks_eql"] * cfg["n_ene_blocks_eql"] * 50 + cfg["n_blocks"] * cfg["n_prop_steps"] * cfg["n_ene_blocks"] * cfg["n_sr_blocks"]
    return {
        "digest": arr_hash(np.frombuffer(raw0 + str(rets[0]).encode(), np.uint8)),
        "nontrivial": True,
        "sched_key": arr_hash(np.array(w.sched_trace + [-1] + outs[1][1]["world"].sched_trace, dtype=np.int64)),
        "state_keys": [f"driver-R{R}-{cfg['ad_mode']}-rot{int(cfg['orbital_rotation'])}-sr{int(cfg['do_sr'])}-{cfg['wt']}-{cfg['trial']}-nb{cfg['n_batch']}"],
        "sim_steps": nsteps * R * len(outs), "sim_time": nsteps * R * len(outs) * cfg["dt"],
        "sample": {"cfg": cfg, "returned": str(rets[0]), "samples_raw_head": raw0.decode().splitlines()[:3],
                   "schedule_a_head": w.sched_trace[:30], "schedule_b_head": outs[1][1]["world"].sched_trace[:30]},
    }


def shrink_candidates(cfg, decisions):
    from ..shrink import decision_candidates

    if cfg.get("fresh"):
        yield dict(cfg, fresh=False), decisions
    for k, v in (("strength", 0.2), ("spin_dep", False)):
        if cfg.get(k) != v:
            yield dict(cfg, **{k: v}), decisions
    if cfg["kind"] == "driver":
        plain = {"policy": "random", "straggler": 0, "p_rendezvous": 0.0, "p_clock_jump": 0.0}
        for key in ("sched_a", "sched_b"):
            if cfg[key] != plain:
                yield dict(cfg, **{key: plain}), decisions
        for d in decision_candidates(decisions):
            yield cfg, d
