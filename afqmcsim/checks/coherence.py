"""C08 - cached overlaps are coherent with the walkers whenever a step reads them.

Histories are produced by running what can produce them: the real sampler entry points
(plain and AD, called through jvp/vjp exactly as driver.afqmc does) chained with the
driver's own glue (QR + global reconfiguration + estimate update), and complete
driver.afqmc runs on a SimWorld of 1-3 ranks.  A harness propagator records, at every
entry of `propagate` inside the compiled loops, the largest relative difference between
the cached overlap and the overlap recomputed from the walker (monitor = invariant
during the run).  After each sampler call the recorded history is compared with the
step-by-step replay model (refinement check over the history)."""
import random

import numpy as np

from .. import lab
from ..core import EventLog, HarnessError, arr_hash
from ..models import replay
from ..simmpi import SimMPIError
from ..world import Deadlock

ID = "C08"
NAME = "coherence"
TITLE = "Cached overlaps are coherent with the walkers whenever a step reads them"

MENU = {"quick": 48, "thorough": 192}
TIERS = {
    "quick": dict(runs=48 * 12, budget_s=300, recheck=2, shrink_s=60.0, run_timeout_s=900),
    "thorough": dict(runs=192 * 150, budget_s=1200, recheck=6, shrink_s=180.0, run_timeout_s=1800),
}
INCOH_TOL = 1.0e-8

RULE = (
    "run i uses compiled-menu entry i mod M (walker type, trial kind, electron counts, walkers, batches, dt, sampler block "
    "structure, entry point: plain / AD forward / AD reverse x sr/nosr x rot/norot / full driver.afqmc on 1-3 simulated ranks) "
    "and draws Hamiltonian, trial quality, JAX seed, number of chained sampler calls, field-fault plan and rank schedule from "
    "sha256(seed|C08|i). Non-trivial = the history contained a re-orthonormalisation with |det R - 1| > 1e-6 before a later "
    "propagate entry (so a missing refresh would be visible); distinct = distinct digest of all outputs."
)
ASSUMPTIONS = [
    "a stale cached overlap differs from the fresh one by a factor det R - 1 = O(dt) >= 1e-6 after QR or O(1) after a reconfiguration that changed the population; the monitor threshold is 1e-8 (unchanged tree: exactly 0)",
    "replay equality uses 1e-9 relative tolerance: replay and scan execute the same floating-point formulas in a different compilation",
    "walkers with weight 0 or a non-finite cached overlap are excluded from the monitor (the property speaks of steps that divide by the stored overlap of a walker that still carries weight)",
]
COMPONENTS = {
    "real": [
        "ad_afqmc.sampling.sampler (all phaseless entry points, _block_scan/_sr_block_scan/_ad_block)",
        "ad_afqmc.propagation.propagator_restricted/unrestricted (propagate, QR, local and global SR)",
        "ad_afqmc.driver.afqmc", "ad_afqmc.wavefunctions rhf/uhf/noci", "ad_afqmc.sr", "ad_afqmc.stat_utils", "jax / XLA CPU",
    ],
    "stub": ["mpi4py.MPI -> SimComm/SimWorld", "wall clock -> simulated clock (driver.time)", "stdout -> buffer"],
    "harness": ["subclass of the repo propagator overriding propagate/init_prop_data (monitor + fault overlay), no source hook"],
}
REQUIRED_PROBES = {"quick": ["qr_nontrivial", "sr_changed_population", "driver_runs", "ad_entry_runs", "driver_block_transitions_replayed", "cpmc_one_body_divisions_monitored"],
                   "thorough": ["qr_nontrivial", "sr_changed_population", "driver_runs", "ad_entry_runs", "walker_killed", "fault_fired", "driver_block_transitions_replayed", "cpmc_one_body_divisions_monitored"]}


def menu_entry(k):
    rng = random.Random(880000 + k)
    wt = rng.choice(["restricted", "unrestricted"])
    if wt == "restricted":
        trial = rng.choice(["rhf", "rhf", "uhf", "uhf"])
        # restricted walkers with an open-shell UHF trial are a documented layout
        # (walker has max(n_up, n_dn) columns, the down determinant uses the first n_dn)
        nelec = rng.choice([(2, 2), (1, 1)]) if trial == "rhf" else rng.choice([(2, 2), (2, 1), (3, 1), (3, 2)])
    else:
        trial = rng.choice(["uhf", "uhf", "noci"])
        nelec = rng.choice([(2, 1), (2, 2), (1, 1), (3, 1)])
    norb = 4
    n_walkers = rng.choice([4, 6, 8])
    n_batch = rng.choice([1, 2])
    kind = rng.choice(["plain", "plain", "ad_fwd", "ad_rev", "driver", "driver", "driver", "cpmc"])
    m = dict(
        wt=wt, trial=trial, nelec=list(nelec), norb=norb, nchol=rng.choice([2, 3]), n_walkers=n_walkers, n_batch=n_batch,
        dt=rng.choice([0.005, 0.05, 0.2]), n_exp_terms=6,
        n_prop_steps=rng.choice([1, 2, 3]), n_ene_blocks=rng.choice([1, 2, 3]), n_sr_blocks=rng.choice([1, 2]),
        kind=kind,
    )
    if kind == "cpmc":
        # constrained-path propagators divide by the stored overlap in both one-body half steps
        m.update(entry="plain", ad_mode=None, prop=rng.choice(["propagator_cpmc", "propagator_cpmc", "propagator_cpmc_nn"]), trial=rng.choice(["uhf_cpmc", "ghf_cpmc", "ghf_cpmc"]),
                 lattice="chain", n_sites=rng.choice([3, 4]), nelec=rng.choice([[1, 1], [2, 1], [2, 2]]), dt=rng.choice([0.01, 0.05]), wt="unrestricted")
    if kind in ("ad_fwd", "ad_rev"):
        m["entry"] = rng.choice(["ad", "ad_nosr", "ad_norot", "ad_nosr_norot"])
        m["ad_mode"] = "forward" if kind == "ad_fwd" else "reverse"
    elif kind == "plain":
        m["entry"], m["ad_mode"] = "plain", None
    else:
        m["R"] = rng.choice([1, 2, 3])
        m["ad_mode"] = rng.choice([None, None, "forward", "reverse"])
        m["orbital_rotation"] = rng.choice([True, False])
        m["do_sr"] = rng.choice([True, True, False])
        m["n_blocks"] = rng.choice([1, 2, 3])
        m["n_eql"] = rng.choice([0, 1, 2])
        m["n_ene_blocks_eql"] = rng.choice([1, 2])
        m["n_sr_blocks_eql"] = rng.choice([1, 2])
    if kind != "cpmc":
        lab.corner_override(m, k, 8, empty_ok=m.get("ad_mode") is None)
        r3 = random.Random(880300 + k)
        if m.get("corner") is None and r3.random() < 0.15:
            # "every trial": the hand-coded CI trials of production runs
            if m["wt"] == "restricted" and m["trial"] == "rhf":
                m["trial"], m["corner"] = "cisd", "cisd_trial"
            elif m["wt"] == "unrestricted" and m["trial"] in ("uhf", "noci"):
                m["trial"], m["corner"] = "ucisd", "ucisd_trial"
    return m


def gen_cfg(seed, index, tier):
    m = dict(menu_entry(index % MENU[tier]))
    rng = random.Random(seed)
    m["menu"] = index % MENU[tier]
    m["ham_seed"] = rng.randrange(1, 2**31 - 1)
    m["strength"] = rng.choice([0.3, 0.6, 0.9, 1.3])
    m["mix"] = rng.choice([0.0, 0.05, 0.2, 0.4])
    m["spin_dep"] = m["wt"] == "unrestricted" and rng.random() < 0.5 and m.get("trial") != "rhf"
    m["jax_seed"] = rng.randrange(1, 2**20)
    m["n_calls"] = rng.choice([2, 3])
    if m["kind"] == "cpmc":
        m.update(u=rng.choice([2.0, 4.0, 8.0]), u_1=rng.choice([0.5, 1.0]), stagger=rng.choice([0.0, 0.3, 1.0]), noise=rng.choice([0.0, 0.3]), theta=rng.choice([0.3, 0.785, 0.0]), chol="hubbard")
        m["nchol"] = m["n_sites"]
    faults = []
    if rng.random() < 0.25 and m["kind"] != "cpmc":
        nsteps = max(1, m["n_prop_steps"] * m["n_ene_blocks"] * m["n_sr_blocks"])
        for _ in range(rng.choice([1, 2])):
            if rng.random() < 0.6:
                faults.append(dict(step=rng.randrange(nsteps * 2), walker=rng.randrange(m["n_walkers"]), comp=-1, value=rng.choice([4.0, 6.0, 10.0]), mode=1))
            else:
                faults.append(dict(step=rng.randrange(nsteps * 2), walker=rng.randrange(m["n_walkers"]), comp=rng.randrange(m["nchol"]), value=rng.choice([8.0, 30.0, 1e3, 1e6]), mode=0))
    m["faults"] = faults
    m["user_init_walkers"] = m["kind"] == "driver" and rng.random() < 0.25
    m["sched"] = {"policy": rng.choice(["random", "sticky", "straggler", "reverse"]), "straggler": rng.randrange(3),
                  "p_rendezvous": rng.choice([0.0, 0.5, 1.0]), "p_clock_jump": rng.choice([0.0, 0.1])}
    return m


def group_of(cfg):
    return f"m{cfg['menu']:03d}"


def group_of_index(seed, index, tier):
    return f"m{index % MENU[tier]:03d}"


def spec_of(cfg):
    return {k: cfg[k] for k in ("norb", "nelec", "nchol", "wt", "trial", "n_walkers", "n_batch", "dt", "n_exp_terms", "ham_seed", "strength", "mix", "spin_dep")}


def _overlay_np(fields, faults, step):
    """Python mirror of lab._overlay for the replay side (same table semantics)."""
    import jax.numpy as jnp

    f = np.array(fields)
    for ft in faults[: lab.N_FAULT_SLOTS]:
        if ft["step"] == step:
            w = ft["walker"]
            if ft.get("comp", -1) < 0:
                f[w, :] = f[w, :] * ft["value"] if ft.get("mode", 0) else ft["value"]
            else:
                c = ft["comp"]
                f[w, c] = f[w, c] * ft["value"] if ft.get("mode", 0) else ft["value"]
    return jnp.array(f)


def _close(a, b, rtol, atol):
    a, b = np.asarray(a), np.asarray(b)
    return a.shape == b.shape and np.allclose(a, b, rtol=rtol, atol=atol, equal_nan=True)


def compare_states(ctx, site, cfg, call, e, pd, er, pdr):
    trig = {"entry": cfg.get("entry", "driver"), "wt": cfg["wt"]}
    # scan and replay execute the same formulas in different compilations; a walker hit by an
    # injected large field is badly conditioned for a few steps and amplifies that round-off
    # (cond x eps), so runs with injected faults are compared at 1e-7 (a missing refresh is >= 1e-3)
    tol = 1e-7 if cfg.get("faults") else 1e-9

    def bad(klass, **d):
        d["trigger"] = trig
        d.update({"call": call, "menu": cfg["menu"]})
        ctx.violation(klass, site, d)

    e, er = float(np.asarray(e)), float(er)
    if not (abs(e - er) <= tol * max(1.0, abs(er)) or (np.isnan(e) and np.isnan(er))):
        bad("coherence.block_energy_differs_from_replay", sampler=e, replay=er)
    if not _close(pd["weights"], pdr["weights"], tol, 1e-12):
        bad("coherence.weights_differ_from_replay", sampler=np.asarray(pd["weights"]).tolist(), replay=np.asarray(pdr["weights"]).tolist())
    live = np.asarray(pdr["weights"]) > 0
    wa = pd["walkers"] if isinstance(pd["walkers"], list) else [pd["walkers"]]
    wb = pdr["walkers"] if isinstance(pdr["walkers"], list) else [pdr["walkers"]]
    for x, y in zip(wa, wb):
        x, y = np.asarray(x)[live], np.asarray(y)[live]
        scale = max(1.0, float(np.max(np.abs(y[np.isfinite(y)]))) if np.any(np.isfinite(y)) else 1.0)
        if not _close(x, y, 10 * tol, tol * scale):
            bad("coherence.walkers_differ_from_replay", max_abs_diff=float(np.nanmax(np.abs(x - y))))
            break
    ov, ovr = np.asarray(pd["overlaps"])[live], np.asarray(pdr["overlaps"])[live]
    if not _close(ov, ovr, 10 * tol, 1e-300):
        bad("coherence.returned_overlaps_differ_from_replay", sampler=str(ov.tolist()), replay=str(ovr.tolist()))
    if not _close(pd["pop_control_ene_shift"], pdr["pop_control_ene_shift"], tol, tol):
        bad("coherence.shift_differs_from_replay", sampler=float(pd["pop_control_ene_shift"]), replay=float(pdr["pop_control_ene_shift"]))


def check_monitor(ctx, site, cfg, mon, expected_nprop, where):
    if expected_nprop is not None and abs(mon["verif_nprop"] - expected_nprop) > 0.5:
        raise HarnessError(f"monitor saw {mon['verif_nprop']} propagate entries, expected {expected_nprop} ({where})")
    inc = mon["verif_incoh"]
    if not (inc <= INCOH_TOL):
        ctx.violation(
            "coherence.stale_overlap_read_by_propagate", site,
            {"trigger": {"entry": cfg.get("entry", "driver"), "wt": cfg["wt"]}, "max_rel_incoherence": inc, "where": where,
             "menu": cfg["menu"], "n_propagate_entries": mon["verif_nprop"]},
        )


def execute(cfg, ctx):
    import jax.numpy as jnp  # noqa: F401
    from ad_afqmc import sampling

    if cfg["kind"] == "cpmc":
        s = lab.build_cpmc_system({k: cfg[k] for k in ("lattice", "n_sites", "nelec", "u", "u_1", "dt", "n_walkers", "prop", "trial", "chol", "stagger", "noise", "theta", "ham_seed")}, harness=True)
        ctx.probe("cpmc_runs", 1)
    else:
        s = lab.build_system(spec_of(cfg))
    smp = sampling.sampler(cfg["n_prop_steps"], cfg["n_ene_blocks"], cfg["n_sr_blocks"], cfg.get("n_blocks", 1))
    faults = cfg.get("faults") or []
    info = {}
    digest_parts = []
    sim_steps = 0
    if cfg["kind"] == "driver":
        return _execute_driver(cfg, ctx, s, smp, faults)

    entry, ad_mode = cfg["entry"], cfg["ad_mode"]
    site = "sampler.propagate_phaseless" + ("" if entry == "plain" else "_" + entry)
    pd = lab.init_state(s, cfg["jax_seed"], faults=faults)
    steps_per_call = cfg["n_prop_steps"] * cfg["n_ene_blocks"] * (cfg["n_sr_blocks"] if entry in ("plain", "ad", "ad_norot") else 1)
    for call in range(cfg["n_calls"]):
        step0 = [int(round(float(np.asarray(pd["verif_step"]))))]

        def hook(f, step0=step0):
            out = _overlay_np(f, faults, step0[0]) if faults else f
            step0[0] += 1
            return out

        pre = lab.strip_monitors(lab.copy_pd(pd))
        e, _, pd = lab.call_entry(s, smp, entry, ad_mode, pd)
        er, pdr, _ = replay.replay_entry(s, smp, entry, pre, s.plain, field_hook=hook, info=info)
        compare_states(ctx, site, cfg, call, e, pd, er, pdr)
        digest_parts.append(arr_hash(np.asarray(e), np.asarray(pd["weights"]), *(pd["walkers"] if isinstance(pd["walkers"], list) else [pd["walkers"]])))
        sim_steps += steps_per_call
        nk = float(np.asarray(pd["n_killed_walkers"]))
        if not (0.0 <= nk <= 1.0) and not np.isnan(nk):
            pass  # C09's business
        pd = lab.driver_glue(s, pd, e)
    mon = lab.read_monitors(pd)
    check_monitor(ctx, site, cfg, mon, steps_per_call * cfg["n_calls"], "chained sampler calls with driver glue")
    ctx.probe("qr_nontrivial", info.get("max_detR_dev", 0.0) > 1e-6)
    ctx.probe("sr_changed_population", info.get("sr_changed", 0))
    ctx.probe("walker_killed", mon["verif_n_killed"] > 0)
    ctx.probe("fault_fired", mon["verif_n_faults"])
    ctx.probe("ad_entry_runs", entry != "plain")
    ctx.count("propagate_entries_monitored", int(mon["verif_nprop"]))
    ctx.count("field_faults_fired", int(mon["verif_n_faults"]))
    ctx.count("walkers_killed", int(mon["verif_n_killed"]))
    ctx.count("sampler_calls", cfg["n_calls"])
    if cfg["kind"] == "cpmc":
        ctx.count("cpmc_one_body_divisions_monitored", int(mon.get("verif_n_onebody", 0)))
        ctx.probe("cpmc_one_body_divisions_monitored", int(mon.get("verif_n_onebody", 0)))
    return {
        "digest": arr_hash(np.frombuffer("|".join(digest_parts).encode(), np.uint8)),
        "nontrivial": info.get("max_detR_dev", 0.0) > 1e-6,
        "state_keys": [f"{entry}-{ad_mode}-{cfg['wt']}-{cfg['trial']}-sr{int(info.get('sr_changed', 0) > 0)}-k{int(mon['verif_n_killed'] > 0)}-f{int(mon['verif_n_faults'] > 0)}"],
        "sim_steps": sim_steps,
        "sim_time": sim_steps * cfg["dt"],
        "sample": {"cfg": {k: cfg[k] for k in cfg if k != "sched"}, "monitor": mon, "max_detR_dev": info.get("max_detR_dev", 0.0), "energy_last_call": float(np.asarray(e))},
    }


def _execute_driver(cfg, ctx, s, smp, faults):
    R = cfg["R"]
    opts = lab.default_options(
        seed=cfg["jax_seed"], ad_mode=cfg["ad_mode"], n_ene_blocks_eql=cfg["n_ene_blocks_eql"], n_sr_blocks_eql=cfg["n_sr_blocks_eql"],
        n_eql=cfg["n_eql"], orbital_rotation=cfg["orbital_rotation"], do_sr=cfg["do_sr"], save_walkers=True,
    )
    site = "driver.afqmc"
    log = EventLog()
    fb = {r: faults for r in range(R)} if faults else None
    iw = None
    if cfg.get("user_init_walkers"):
        # walkers supplied by the caller: complex, not orthonormal, near the trial's natural orbitals
        import jax.numpy as jnp

        rs = np.random.RandomState((cfg["ham_seed"] + 3) % (2**32 - 1))
        base = s.trial.get_init_walkers(s.wave_data, cfg["n_walkers"], restricted=(cfg["wt"] == "restricted"))
        noisy = lambda b: jnp.array(np.asarray(b) + 0.15 * (rs.normal(size=np.asarray(b).shape) + 1j * rs.normal(size=np.asarray(b).shape)))  # noqa: E731
        iw = noisy(base) if cfg["wt"] == "restricted" else [noisy(base[0]), noisy(base[1])]
        ctx.probe("driver_runs_with_user_walkers", 1)
    try:
        out = lab.run_driver_world(s, smp, opts, R, ctx.decider, sched=cfg["sched"], log=log, faults_by_rank=fb, init_walkers=iw)
    except ValueError as e:
        if "Initial overlaps are zero" in str(e):
            ctx.count("precondition_start_overlap")
            return {"digest": None, "nontrivial": False}
        raise
    except Deadlock as e:
        ctx.violation("coherence.driver_deadlock", site, {"trigger": {"entry": "driver", "wt": cfg["wt"]}, "error": str(e)})
        return {"digest": "deadlock", "nontrivial": False}
    except SimMPIError as e:
        ctx.violation("coherence.driver_mpi_abort", site, {"trigger": {"entry": "driver", "wt": cfg["wt"]}, "error": str(e)})
        return {"digest": "abort", "nontrivial": False}
    eql_steps = cfg["n_eql"] * cfg["n_sr_blocks_eql"] * cfg["n_ene_blocks_eql"] * 50
    if cfg["ad_mode"] is None:
        per = cfg["n_prop_steps"] * cfg["n_ene_blocks"] * cfg["n_sr_blocks"]
    else:
        per = cfg["n_prop_steps"] * cfg["n_ene_blocks"] * (cfg["n_sr_blocks"] if cfg["do_sr"] else 1)
    expected = eql_steps + per * cfg["n_blocks"]
    mons = []
    for r in range(R):
        items = out["pickles"].get(r)
        if not items or len(items) != cfg["n_blocks"]:
            raise HarnessError(f"rank {r}: expected {cfg['n_blocks']} pickled prop_data, got {0 if not items else len(items)}")
        mon = lab.read_monitors(items[-1])
        mons.append(mon)
        check_monitor(ctx, site, cfg, mon, expected, f"rank {r} of {R}, complete driver run")
    # cross-rank invariant: the running estimate that feeds the capping and the shift is
    # the same on every rank at every iteration
    for n in range(cfg["n_blocks"]):
        es = [float(np.asarray(out["pickles"][r][n]["e_estimate"])) for r in range(R)]
        if not all((abs(x - es[0]) <= 1e-12 * max(1.0, abs(es[0]))) or (np.isnan(x) and np.isnan(es[0])) for x in es):
            ctx.violation("coherence.ranks_disagree_on_e_estimate", site,
                          {"trigger": {"entry": "driver", "wt": cfg["wt"]}, "block": n, "e_estimate_by_rank": es})
    raw = out["files"].get("samples_raw.dat", b"")
    rows = lab.parse_samples(raw)
    if rows.shape[0] != R * cfg["n_blocks"]:
        ctx.violation("coherence.samples_raw_rows", site, {"trigger": {"entry": "driver", "wt": cfg["wt"]}, "rows": int(rows.shape[0]), "expected": R * cfg["n_blocks"]})
    driver_replay(ctx, cfg, s, smp, out, faults, rows)
    w = out["world"]
    for k in ("eager", "rendezvous", "collectives", "sched_decisions", "clock_jumps", "straggler_skips"):
        ctx.count(k, w.stats[k])
    ctx.probe("driver_runs", 1)
    ctx.probe("rank_ahead_ge_2", w.stats["max_rank_ahead"] >= 2)
    nk = sum(m["verif_n_killed"] for m in mons)
    nf = sum(m["verif_n_faults"] for m in mons)
    ctx.probe("walker_killed", nk > 0)
    ctx.probe("fault_fired", nf)
    # the equilibration phase always contains QR after 50 steps -> det R far from 1
    ctx.probe("qr_nontrivial", 1)
    ctx.count("propagate_entries_monitored", int(sum(m["verif_nprop"] for m in mons)))
    ctx.count("field_faults_fired", int(nf))
    ctx.count("walkers_killed", int(nk))
    return {
        "digest": arr_hash(np.frombuffer(raw + log.digest().encode(), np.uint8)),
        "nontrivial": True,
        "sched_key": arr_hash(np.array(w.sched_trace, dtype=np.int64)),
        "state_keys": [f"driver-R{R}-{cfg['ad_mode']}-{cfg['wt']}-{cfg['trial']}-rot{int(cfg['orbital_rotation'])}-sr{int(cfg['do_sr'])}-k{int(nk > 0)}-f{int(nf > 0)}"],
        "sim_steps": expected * R,
        "sim_time": expected * R * cfg["dt"],
        "sample": {"cfg": {k: cfg[k] for k in cfg}, "monitor_rank0": mons[0], "returned": [str(x) for x in out["returns"][0]],
                   "samples_raw_head": raw.decode().splitlines()[:3], "schedule_head": w.sched_trace[:30], "events_head": log.head[:10]},
    }


def driver_entry(cfg):
    """Which sampler entry point driver.afqmc selects for these options."""
    if cfg["ad_mode"] is None:
        return "plain"
    if not cfg["orbital_rotation"] and not cfg["do_sr"]:
        return "ad_nosr_norot"
    if not cfg["orbital_rotation"]:
        return "ad_norot"
    if not cfg["do_sr"]:
        return "ad_nosr"
    return "ad"


def driver_replay(ctx, cfg, s, smp, out, faults, rows):
    """Refinement of the driver loop across ranks and iterations, from the recorded
    history (prop_data of every rank pickled by the driver after each block): block n ->
    block n+1 must equal [serial reference comb on the rank-ordered population with the
    root's offset] followed by [step-by-step replay of the sampler call with explicit
    overlap refreshes] followed by the driver's QR."""
    import jax.numpy as jnp
    from jax import random as jr

    from ..models import comb

    R, nb, nw = cfg["R"], cfg["n_blocks"], cfg["n_walkers"]
    site = "driver.afqmc"
    entry = driver_entry(cfg)
    trig = {"entry": "driver", "wt": cfg["wt"]}
    unres = cfg["wt"] != "restricted"
    if rows.shape[0] != R * nb:
        return
    for n in range(nb - 1):
        P = [out["pickles"][r][n] for r in range(R)]
        Q = [out["pickles"][r][n + 1] for r in range(R)]
        wts = np.concatenate([np.asarray(p_["weights"]) for p_ in P])
        if not np.all(np.isfinite(wts)) or float(np.sum(np.abs(wts))) <= 0:
            ctx.count("driver_replay_skipped_extinct")
            return
        # (how the running estimate is mixed is not part of the statement: the replay takes
        # e_estimate of block n+1 from the recorded history)
        # reference global reconfiguration
        newkeys, zetas = [], []
        for r in range(R):
            k2, sub = jr.split(P[r]["key"])
            newkeys.append(k2)
            zetas.append(float(jr.uniform(sub)))
        absw = [abs(float(x)) for x in wts]
        if comb.distance_to_breakpoint(absw, zetas[0]) < 1e-7:
            ctx.count("driver_replay_skipped_at_threshold")
            return
        idx = comb.comb_indices(absw, zetas[0])
        wnew = float(np.sum(np.abs(wts))) / (R * nw)
        if unres:
            Wu = np.concatenate([np.asarray(p_["walkers"][0]) for p_ in P])
            Wd = np.concatenate([np.asarray(p_["walkers"][1]) for p_ in P])
        else:
            Wr = np.concatenate([np.asarray(p_["walkers"]) for p_ in P])
        for r in range(R):
            sel = np.array(idx[r * nw : (r + 1) * nw])
            pd = {k: v for k, v in P[r].items() if not k.startswith("verif_")}
            pd["walkers"] = [jnp.array(Wu[sel]), jnp.array(Wd[sel])] if unres else jnp.array(Wr[sel])
            pd["weights"] = jnp.ones(nw) * wnew
            pd["key"] = newkeys[r]
            pd["e_estimate"] = Q[r]["e_estimate"]
            step0 = [int(round(float(np.asarray(P[r]["verif_step"]))))]

            def hook(f, step0=step0):
                o = _overlay_np(f, faults, step0[0]) if faults else f
                step0[0] += 1
                return o

            er, pdr, _ = replay.replay_entry(s, smp, entry, pd, s.plain, field_hook=hook)
            pdr = s.plain.orthonormalize_walkers(lab.copy_pd(pdr))
            where = f"block {n}->{n + 1} rank {r} of {R}"
            if not np.array_equal(np.asarray(pdr["key"]), np.asarray(Q[r]["key"])):
                ctx.violation("coherence.driver_key_stream_differs_from_replay", site, {"trigger": trig, "where": where, "menu": cfg["menu"]})
            wq = np.asarray(Q[r]["weights"])
            if not _close(wq, pdr["weights"], 1e-8, 1e-12):
                ctx.violation("coherence.driver_weights_differ_from_replay", site,
                              {"trigger": trig, "where": where, "driver": wq.tolist(), "replay": np.asarray(pdr["weights"]).tolist(), "menu": cfg["menu"],
                               "selected_by_reference_comb": sel.tolist(), "zeta_root": zetas[0]})
                return
            live = np.asarray(pdr["weights"]) > 0
            wa = Q[r]["walkers"] if unres else [Q[r]["walkers"]]
            wb = pdr["walkers"] if unres else [pdr["walkers"]]
            for x, y in zip(wa, wb):
                x, y = np.asarray(x)[live], np.asarray(y)[live]
                if x.size and not _close(x, y, 1e-7, 1e-8):
                    ctx.violation("coherence.driver_walkers_differ_from_replay", site, {"trigger": trig, "where": where, "max_abs_diff": float(np.nanmax(np.abs(x - y))), "menu": cfg["menu"]})
                    return
            row = rows[(n + 1) * R + r]
            if np.isfinite(er) and not abs(row[1] - er) <= 2e-6 * max(1.0, abs(er)):
                ctx.violation("coherence.driver_block_energy_differs_from_replay", site, {"trigger": trig, "where": where, "driver_sample": float(row[1]), "replay": er, "menu": cfg["menu"]})
                return
            ctx.count("driver_block_transitions_replayed")
            ctx.probe("driver_block_transitions_replayed", 1)


def shrink_candidates(cfg, decisions):
    from ..shrink import decision_candidates, drop_each

    if cfg.get("faults"):
        yield dict(cfg, faults=[]), decisions
        for f in drop_each(cfg["faults"]):
            yield dict(cfg, faults=f), decisions
    if cfg.get("n_calls", 1) > 1:
        yield dict(cfg, n_calls=cfg["n_calls"] - 1), decisions
    if cfg["kind"] == "driver":
        if cfg["sched"]["policy"] != "random" or cfg["sched"]["p_rendezvous"] or cfg["sched"]["p_clock_jump"]:
            yield dict(cfg, sched=dict(cfg["sched"], policy="random", p_rendezvous=0.0, p_clock_jump=0.0)), decisions
        for d in decision_candidates(decisions):
            yield cfg, d
    for k, v in (("mix", 0.0), ("strength", 0.3), ("spin_dep", False)):
        if cfg.get(k) != v:
            yield dict(cfg, **{k: v}), decisions
