"""C07 - stochastic reconfiguration is an unbiased, weight-conserving comb.

A world of R simulated ranks performs a sequence of reconfigurations without barriers
(so eager ranks run ahead) through the real sr.* / propagator.* code on SimComm; the
recorded history is compared with an independent serial comb on the rank-ordered
population; the jitted, NumPy, not_a_comm and propagator-local routes are run on the
same population; the expectation over the comb offset is integrated exactly over its
breakpoints by calling the real routine once per interval.
"""
import math
import random

import numpy as np

from ..core import EventLog, arr_hash, canon
from ..models import comb
from ..simmpi import SimMPIError, make_world_mpi
from ..world import Deadlock, SimWorld

ID = "C07"
NAME = "sr_world"
TITLE = "Stochastic reconfiguration is an unbiased, weight-conserving comb"

TIERS = {
    "quick": dict(runs=8000, budget_s=240, recheck=4, shrink_s=60.0),
    "thorough": dict(runs=400000, budget_s=1200, recheck=16, shrink_s=180.0),
}

RULE = (
    "run i: cfg = gen_cfg(sha256(seed|C07|i)): ranks R in 1..4, walkers/rank n in {1,2,3,4,6,8}, container "
    "(restricted array / unrestricted [up,dn] with different column counts), route (sr.*_mpi on SimComm, "
    "propagator.stochastic_reconfiguration_global on SimComm), 1-4 reconfigurations without barriers, adversarial "
    "weights (zeros, signs, 30 decades, ties, dominant walker), offsets in (0,1) incl. breakpoint +- eps, schedule "
    "policy and eager/rendezvous mix; every run also drives the jitted, NumPy, not_a_comm and propagator-local routes "
    "and integrates the offset average over its breakpoints. Non-trivial = at least one reconfiguration changed the "
    "population (selection is not the identity); distinct = distinct digest of (event log, outputs)."
)
ASSUMPTIONS = [
    "SimComm implements MPI collective semantics from the standard (no MPI library exists on this image to validate against)",
    "jax.random.split/uniform are trusted to reproduce the offset the propagator draws from prop_data['key']",
    "index equality with the reference comb is only demanded when the offset is >= 1e-9 away from every breakpoint",
    "weight vectors have finite, non-zero total absolute weight (precondition of a comb)",
]
COMPONENTS = {
    "real": [
        "ad_afqmc.sr.stochastic_reconfiguration(_uhf/_np/_mpi/_mpi_uhf)",
        "ad_afqmc.propagation.propagator_restricted/unrestricted.stochastic_reconfiguration_local/global",
        "ad_afqmc.config.not_a_comm",
        "jax / XLA CPU",
    ],
    "stub": ["mpi4py.MPI -> afqmcsim.simmpi.SimComm on afqmcsim.world.SimWorld (baton-passing threads)"],
}
REQUIRED_PROBES = {
    "quick": ["driver_block_transitions_checked", "sr_changed_population", "zero_weight_walker", "offset_near_breakpoint", "rank_ahead_ge_2", "eager", "rendezvous"],
    "thorough": ["driver_block_transitions_checked", "sr_changed_population", "zero_weight_walker", "offset_near_breakpoint", "rank_ahead_ge_2", "eager", "rendezvous",
                 "eager_and_rendezvous_same_collective", "zero_weight_first", "zero_weight_last"],
}

NORB, NUP, NDN = 3, 2, 1
WEIGHT_KINDS = ["uniform", "zeros_some", "zero_first", "zero_last", "zero_rank", "signs", "decades", "ties", "dominant", "equal", "tiny", "window"]
POLICIES = ["random", "sticky", "straggler", "reverse"]


# ------------------------------------------------------------------ generation


def gen_weights(rng, kind, R, n):
    N = R * n
    if kind == "uniform":
        w = [rng.uniform(0.01, 2.0) for _ in range(N)]
    elif kind == "zeros_some":
        w = [0.0 if rng.random() < 0.4 else rng.uniform(0.01, 2.0) for _ in range(N)]
    elif kind == "zero_first":
        w = [rng.uniform(0.01, 2.0) for _ in range(N)]
        w[0] = 0.0
    elif kind == "zero_last":
        w = [rng.uniform(0.01, 2.0) for _ in range(N)]
        w[-1] = 0.0
    elif kind == "zero_rank":
        w = [rng.uniform(0.01, 2.0) for _ in range(N)]
        r = rng.randrange(R)
        for j in range(r * n, (r + 1) * n):
            w[j] = 0.0
    elif kind == "signs":
        w = [rng.choice([-1.0, 1.0]) * rng.uniform(0.01, 2.0) for _ in range(N)]
    elif kind == "decades":
        w = [rng.choice([-1.0, 1.0, 1.0]) * 10.0 ** rng.uniform(-15, 15) for _ in range(N)]
    elif kind == "ties":
        vals = [rng.choice([0.5, 1.0, 1.5]) for _ in range(N)]
        w = vals
    elif kind == "dominant":
        w = [rng.uniform(1e-6, 1e-3) for _ in range(N)]
        w[rng.randrange(N)] = rng.uniform(10.0, 100.0)
    elif kind == "equal":
        w = [rng.choice([1.0, 0.37, 100.0])] * N
    elif kind == "tiny":
        s = 10.0 ** rng.uniform(-200, -100)
        w = [s * rng.uniform(0.1, 1.0) for _ in range(N)]
    else:  # "window": what the phaseless constraint can produce
        w = [rng.choice([0.0, 1e-3, 100.0, rng.uniform(1e-3, 100.0)]) for _ in range(N)]
    if sum(abs(x) for x in w) == 0.0:
        w[rng.randrange(N)] = 1.0
    return w


def gen_zeta(rng, absw):
    """(zeta, near_breakpoint_flag): uniform in (0,1), or a breakpoint +- eps."""
    if rng.random() < 0.35:
        bps = comb.breakpoints(absw)
        if bps:
            b = rng.choice(bps)
            eps = rng.choice([1e-12, 1e-9, 1e-6, 1e-3]) * rng.choice([-1.0, 1.0])
            z = b + eps
            if 0.0 < z < 1.0:
                return z, True
    if rng.random() < 0.1:
        return rng.choice([1e-12, 1e-6, 1.0 - 1e-12, 1.0 - 1e-6, 0.5]), False
    z = rng.random()
    while not (0.0 < z < 1.0):
        z = rng.random()
    return z, False


P_DRIVER = {"quick": 0.012, "thorough": 0.004}
DRIVER_MENU = 12


def driver_menu_entry(k):
    """Static (compile-determining) part of an in-situ run: the comb as the driver uses it."""
    r = random.Random(70000 + k)
    wt = ["restricted", "unrestricted"][k % 2]
    ad = [None, "forward", None, "forward"][(k // 2) % 4]
    return dict(kind="driver", wt=wt, trial="rhf" if wt == "restricted" else "uhf", nelec=[2, 2] if wt == "restricted" else r.choice([[2, 1], [2, 2]]),
                norb=4, nchol=2, n_walkers=r.choice([4, 6]), n_batch=1, dt=r.choice([0.01, 0.05]), n_exp_terms=6,
                n_prop_steps=r.choice([1, 2]), n_ene_blocks=r.choice([1, 2]), n_sr_blocks=1, R=[1, 2, 3][(k // 4) % 3], ad_mode=ad,
                orbital_rotation=False, do_sr=(k % 3 != 0), n_blocks=3, n_eql=1, n_ene_blocks_eql=1, n_sr_blocks_eql=1, menu=k)


def gen_driver_cfg(rng, k):
    m = driver_menu_entry(k)
    m.update(ham_seed=rng.randrange(1, 2**31 - 1), strength=rng.choice([0.3, 0.6, 0.9]), mix=rng.choice([0.0, 0.1, 0.3]), spin_dep=False,
             jax_seed=rng.randrange(1, 2**20), faults=[],
             sched={"policy": rng.choice(POLICIES), "straggler": rng.randrange(3), "p_rendezvous": rng.choice([0.0, 0.5, 1.0]), "p_clock_jump": 0.0})
    return m


def gen_cfg(seed, index, tier):
    rng = random.Random(seed)
    if rng.random() < P_DRIVER[tier]:
        k = rng.randrange(DRIVER_MENU)
        return {"driver": True, "k": k, "dcfg": gen_driver_cfg(rng, k)}
    R = rng.choice([1, 2, 2, 3, 3, 4])
    n = rng.choice([1, 2, 3, 4, 6, 8])
    container = rng.choice(["restricted", "unrestricted"])
    route = rng.choice(["mpi", "mpi", "prop_global"])
    rounds = rng.randint(1, 4)
    kinds, weights, zetas, near = [], [], [], []
    for _ in range(rounds):
        k = rng.choice(WEIGHT_KINDS)
        w = gen_weights(rng, k, R, n)
        kinds.append(k)
        weights.append(w)
        zs = []
        nb = False
        for r in range(R):
            z, f = gen_zeta(rng, [abs(x) for x in w])
            zs.append(z)
            nb = nb or (f and r == 0)
        zetas.append(zs)
        near.append(nb)
    return {
        "R": R,
        "n": n,
        "container": container,
        "route": route,
        "rounds": rounds,
        "weight_kinds": kinds,
        "weights": weights,
        "zetas": zetas,
        "near_breakpoint": near,
        "key_seed": rng.randrange(1, 2**31 - 1),
        "sched": {
            "policy": rng.choice(POLICIES),
            "straggler": rng.randrange(R),
            "p_rendezvous": rng.choice([0.0, 0.3, 0.5, 0.7, 1.0]),
        },
        "integrate_mpi": rng.random() < 0.25,
    }


def group_of(cfg):
    if cfg.get("driver"):
        return f"driver-{cfg['k']:02d}"
    return f"{cfg['container']}-R{cfg['R']}-n{cfg['n']}"


def group_of_index(seed, index, tier):
    # the first draws of gen_cfg
    rng = random.Random(seed)
    if rng.random() < P_DRIVER[tier]:
        return f"driver-{rng.randrange(DRIVER_MENU):02d}"
    R = rng.choice([1, 2, 2, 3, 3, 4])
    n = rng.choice([1, 2, 3, 4, 6, 8])
    container = rng.choice(["restricted", "unrestricted"])
    return f"{container}-R{R}-n{n}"


# ------------------------------------------------------------------ tags


def make_tags(container, t, N):
    """Walker matrices whose entries encode (round, global index, row, column)."""
    g = np.arange(N).reshape(N, 1, 1)
    p = np.arange(NORB).reshape(1, NORB, 1)

    def block(ncol, sign, im):
        q = np.arange(ncol).reshape(1, 1, ncol)
        base = (t + 1) * 100000.0 + g * 100.0 + p * 10.0 + q + 1.0
        return (sign * base + 1j * im * np.ones_like(base)).astype(np.complex128)

    if container == "restricted":
        return block(NUP, 1.0, 0.5)
    return [block(NUP, 1.0, 0.5), block(NDN, -1.0, -0.25)]


def decode_parent(row):
    v = abs(row[0, 0].real) - 1.0
    return int(round(v)) // 100 % 1000


# ------------------------------------------------------------------ oracle


def check_comb(ctx, site, container, tags_in, w_in, zeta, out_walkers, out_weights, extra=None):
    """Oracle (i)-(iv) for one reconfiguration of a whole (rank-ordered) population.
    Returns the list of selected parent indices."""
    N = len(w_in)
    absw = [abs(float(x)) for x in w_in]
    total = comb.cumulative(absw)[-1]
    trig = {"container": container}
    trig.update(extra or {})

    def bad(klass, **detail):
        detail["trigger"] = trig
        detail.update({"N": N, "zeta": zeta, "weights": list(map(float, w_in))})
        ctx.violation(klass, site, detail)

    ow = np.asarray(out_weights)
    if ow.shape != (N,):
        bad("sr.output_shape", got=list(ow.shape))
        return None
    if np.iscomplexobj(ow) or not np.all(np.isfinite(ow)):
        bad("sr.weights_not_real_finite", out=ow.tolist())
        return None
    target = total / N
    if not np.allclose(ow, target, rtol=1e-12, atol=0.0):
        bad("sr.weights_not_uniform_or_total_not_conserved", out=ow.tolist(), expected_each=target)
        return None
    # (i) copies of existing walkers only, spin blocks paired
    if container == "restricted":
        ups = np.asarray(out_walkers)
        dns = None
    else:
        ups, dns = np.asarray(out_walkers[0]), np.asarray(out_walkers[1])
    if ups.shape[0] != N:
        bad("sr.output_shape", got=list(ups.shape))
        return None
    parents = []
    for j in range(N):
        if not np.all(np.isfinite(ups[j])):
            bad("sr.walker_not_a_copy", position=j, reason="non-finite entries")
            return None
        pj = decode_parent(ups[j])
        src_up = tags_in if container == "restricted" else tags_in[0]
        if pj >= N or not np.array_equal(ups[j], src_up[pj]):
            bad("sr.walker_not_a_copy", position=j, decoded_parent=pj)
            return None
        if dns is not None:
            if not np.all(np.isfinite(dns[j])):
                bad("sr.walker_not_a_copy", position=j, reason="non-finite entries (down block)")
                return None
            pd = decode_parent(dns[j])
            if pd != pj or not np.array_equal(dns[j], tags_in[1][pd]):
                bad("sr.spin_blocks_not_copied_together", position=j, up_parent=pj, dn_parent=pd)
                return None
        parents.append(pj)
    # (iii) floor / ceil counts; zero weight never selected
    q = comb.expected_counts(absw)
    cnt = comb.counts_from_indices(parents, N)
    near = comb.distance_to_breakpoint(absw, zeta) < 1e-9
    for i in range(N):
        if absw[i] == 0.0 and cnt[i] != 0:
            bad("sr.zero_weight_walker_selected", walker=i, count=cnt[i])
            return None
        lo, hi = math.floor(q[i] - 1e-9 * N), math.ceil(q[i] + 1e-9 * N)
        if near:
            lo, hi = lo - 1, hi + 1
        if not (lo <= cnt[i] <= hi):
            bad("sr.count_not_floor_or_ceil", walker=i, count=cnt[i], expected=q[i])
            return None
    # (iv) exact agreement with the serial reference comb
    if not near:
        ref = comb.comb_indices(absw, zeta)
        if ref != parents:
            bad("sr.differs_from_serial_comb", got=parents, reference=ref)
            return None
    else:
        ctx.count("skipped_at_threshold")
    return parents


# ------------------------------------------------------------------ execution


def _split(container, tags, R, n, r):
    if container == "restricted":
        return tags[r * n : (r + 1) * n]
    return [tags[0][r * n : (r + 1) * n], tags[1][r * n : (r + 1) * n]]


def _concat(container, parts):
    if container == "restricted":
        return np.concatenate([np.asarray(p) for p in parts], axis=0)
    return [np.concatenate([np.asarray(p[0]) for p in parts], axis=0), np.concatenate([np.asarray(p[1]) for p in parts], axis=0)]


def _prop(container, n):
    from ad_afqmc import propagation

    cls = propagation.propagator_restricted if container == "restricted" else propagation.propagator_unrestricted
    return cls(dt=0.01, n_walkers=n)


def _zeta_from_key(key):
    from jax import random

    new_key, sub = random.split(key)
    return float(random.uniform(sub)), new_key


def run_world(ctx, cfg, log, rounds_weights, rounds_zetas, route, stats_into=None):
    """Run the sequence of reconfigurations on a SimWorld.  Returns per-round
    (root zeta, concatenated out walkers, concatenated out weights)."""
    import jax.numpy as jnp
    from jax import random

    from ad_afqmc import sr

    R, n, container = cfg["R"], cfg["n"], cfg["container"]
    N = R * n
    world = SimWorld(R, ctx.decider, log, sched=cfg["sched"], max_decisions=4000)
    mpis = make_world_mpi(world)
    prop = _prop(container, n) if route == "prop_global" else None
    T = len(rounds_weights)
    root_zetas = [None] * T

    def target(rank, w):
        comm = mpis[rank].COMM_WORLD
        key = random.PRNGKey(cfg["key_seed"] + rank)
        outs = []
        for t in range(T):
            tags = make_tags(container, t, N)
            mine = _split(container, tags, R, n, rank)
            wts = jnp.array(rounds_weights[t][rank * n : (rank + 1) * n])
            if container == "restricted":
                walkers = jnp.array(mine)
            else:
                walkers = [jnp.array(mine[0]), jnp.array(mine[1])]
            if route == "mpi":
                z = rounds_zetas[t][rank]
                if rank == 0:
                    root_zetas[t] = z
                f = sr.stochastic_reconfiguration_mpi if container == "restricted" else sr.stochastic_reconfiguration_mpi_uhf
                nw, nwt = f(walkers, wts, z, comm)
            else:
                if rank == 0:
                    root_zetas[t], _ = _zeta_from_key(key)
                pd = {"walkers": walkers, "weights": wts, "key": key}
                pd = prop.stochastic_reconfiguration_global(pd, comm)
                nw, nwt, key = pd["walkers"], pd["weights"], pd["key"]
            outs.append((nw, np.asarray(nwt)))
        return outs

    try:
        res = world.run(target)
    except Deadlock as e:
        ctx.violation("sr.deadlock", f"sr.{route}", {"trigger": {"container": container}, "error": str(e), "R": R, "n": n})
        return None, world
    except SimMPIError as e:
        ctx.violation("sr.mpi_abort", f"sr.{route}", {"trigger": {"container": container}, "error": str(e), "R": R, "n": n})
        return None, world
    # liveness: everything returned within a bounded number of scheduler decisions
    ncoll = world.stats["collectives"]
    if world.n_decisions > max(8, ncoll * R * 4 + 4 * R):
        ctx.violation("sr.no_progress_bound", f"sr.{route}", {"trigger": {"container": container}, "decisions": world.n_decisions, "collectives": ncoll})
    out = []
    for t in range(T):
        ws = _concat(container, [res[r][t][0] for r in range(R)])
        wt = np.concatenate([res[r][t][1] for r in range(R)])
        out.append((root_zetas[t], ws, wt))
    return out, world


def site_of(route, container):
    if route == "mpi":
        return "sr.stochastic_reconfiguration_mpi" + ("" if container == "restricted" else "_uhf")
    return ("propagator_restricted" if container == "restricted" else "propagator_unrestricted") + ".stochastic_reconfiguration_global"


class _RenamingCtx:
    """Reports the driver-level refinement failures under this property's classes."""

    def __init__(self, ctx):
        self._ctx = ctx

    def __getattr__(self, name):
        return getattr(self._ctx, name)

    def violation(self, klass, site, detail=None):
        detail = dict(detail or {})
        detail["trigger"] = {"container": "driver"}
        self._ctx.violation("sr.driver_population_is_not_the_serial_comb:" + klass.split(".", 1)[-1], site, detail)


def _exec_driver(cfg, ctx):
    """The comb in situ: a complete driver.afqmc run on 1-3 simulated ranks; from the
    population every rank pickled after each block, the next block must start from the
    serial reference comb on the rank-ordered concatenated population with the root's
    offset (checked by replaying the next block from that population)."""
    from ad_afqmc import sampling

    from .. import lab
    from . import coherence

    d = cfg["dcfg"]
    s = lab.build_system(coherence.spec_of(d))
    smp = sampling.sampler(d["n_prop_steps"], d["n_ene_blocks"], d["n_sr_blocks"], d["n_blocks"])
    opts = lab.default_options(seed=d["jax_seed"], ad_mode=d["ad_mode"], n_ene_blocks_eql=1, n_sr_blocks_eql=1, n_eql=1,
                               orbital_rotation=d["orbital_rotation"], do_sr=d["do_sr"], save_walkers=True)
    log = EventLog()
    try:
        out = lab.run_driver_world(s, smp, opts, d["R"], ctx.decider, sched=d["sched"], log=log)
    except (Deadlock, SimMPIError) as e:
        ctx.violation("sr.deadlock", "driver.afqmc", {"trigger": {"container": "driver"}, "error": str(e)})
        return {"digest": None, "nontrivial": False}
    raw = out["files"].get("samples_raw.dat", b"")
    rows = lab.parse_samples(raw)
    before = dict(ctx.stats)
    coherence.driver_replay(_RenamingCtx(ctx), d, s, smp, out, [], rows)
    n_tr = ctx.stats.get("driver_block_transitions_replayed", 0) - before.get("driver_block_transitions_replayed", 0)
    ctx.probe("driver_block_transitions_checked", n_tr)
    w = out["world"]
    for k in ("eager", "rendezvous", "collectives", "sched_decisions"):
        ctx.count(k, w.stats[k])
    return {"digest": arr_hash(np.frombuffer(raw + log.digest().encode(), np.uint8)), "nontrivial": n_tr > 0,
            "sched_key": arr_hash(np.array(w.sched_trace, dtype=np.int64)),
            "state_keys": [f"driver-R{d['R']}-{d['wt']}-{d['ad_mode']}-sr{int(d['do_sr'])}"], "sim_steps": d["n_blocks"], "sim_time": 0.0,
            "sample": {"driver_cfg": d, "block_transitions_checked": n_tr, "samples_raw_head": raw.decode().splitlines()[:2]}}


def execute(cfg, ctx):
    if cfg.get("driver"):
        return _exec_driver(cfg, ctx)
    import jax.numpy as jnp
    from jax import random

    from ad_afqmc import config, sr

    R, n, container, route = cfg["R"], cfg["n"], cfg["container"], cfg["route"]
    N = R * n
    log = EventLog()
    hist, world = run_world(ctx, cfg, log, cfg["weights"], cfg["zetas"], route)
    changed = False
    outs_for_digest = []
    if hist is not None:
        for t, (z0, ws, wt) in enumerate(hist):
            tags = make_tags(container, t, N)
            parents = check_comb(ctx, site_of(route, container), container, tags, cfg["weights"][t], z0, ws, wt, extra={"R": R})
            outs_for_digest.append(arr_hash(ws, wt))
            if parents is not None and parents != list(range(N)):
                changed = True
            absw = [abs(x) for x in cfg["weights"][t]]
            if any(a == 0.0 for a in absw):
                ctx.probe("zero_weight_walker")
            if absw[0] == 0.0:
                ctx.probe("zero_weight_first")
            if absw[-1] == 0.0:
                ctx.probe("zero_weight_last")
            if comb.distance_to_breakpoint(absw, z0) < 1e-5:
                ctx.probe("offset_near_breakpoint")
    for k in ("eager", "rendezvous", "eager_and_rendezvous_same_collective", "straggler_skips", "sticky_runs", "collectives", "sched_decisions"):
        ctx.count(k, world.stats[k])
        if k in ("eager", "rendezvous", "eager_and_rendezvous_same_collective"):
            ctx.probe(k, world.stats[k])
    if world.stats["max_rank_ahead"] >= 2:
        ctx.probe("rank_ahead_ge_2")
    ctx.probe("sr_changed_population", changed)

    # ---- serial routes on the concatenated population of round 0 -------------------
    t = 0
    tags = make_tags(container, t, N)
    w0 = cfg["weights"][t]
    z = cfg["zetas"][t][0]
    absw = [abs(x) for x in w0]

    def jw():
        return jnp.array(tags) if container == "restricted" else [jnp.array(tags[0]), jnp.array(tags[1])]

    f_jit = sr.stochastic_reconfiguration if container == "restricted" else sr.stochastic_reconfiguration_uhf
    nw, nwt = f_jit(jw(), jnp.array(w0), z)
    p_jit = check_comb(ctx, "sr." + f_jit.__name__, container, tags, w0, z, nw, nwt)
    outs_for_digest.append(arr_hash(nw, nwt))
    if container == "restricted":
        nw, nwt = sr.stochastic_reconfiguration_np(jw(), jnp.array(w0), z)
        check_comb(ctx, "sr.stochastic_reconfiguration_np", container, tags, w0, z, nw, nwt)
        outs_for_digest.append(arr_hash(nw, nwt))
    f_mpi = sr.stochastic_reconfiguration_mpi if container == "restricted" else sr.stochastic_reconfiguration_mpi_uhf
    nw, nwt = f_mpi(jw(), jnp.array(w0), z, config.not_a_comm())
    check_comb(ctx, "sr." + f_mpi.__name__ + "[not_a_comm]", container, tags, w0, z, nw, nwt)
    outs_for_digest.append(arr_hash(nw, nwt))
    prop = _prop(container, N)
    key = random.PRNGKey(cfg["key_seed"])
    zk, _ = _zeta_from_key(key)
    pd = prop.stochastic_reconfiguration_local({"walkers": jw(), "weights": jnp.array(w0), "key": key})
    check_comb(ctx, type(prop).__name__ + ".stochastic_reconfiguration_local", container, tags, w0, zk, pd["walkers"], pd["weights"])
    outs_for_digest.append(arr_hash(pd["walkers"], pd["weights"]))
    ctx.count("serial_route_calls", 4 if container == "restricted" else 3)

    # ---- unbiasedness: integrate the selection count over the offset, exactly ------
    bps = [0.0] + comb.breakpoints(absw) + [1.0]
    q = comb.expected_counts(absw)
    acc = [0.0] * N
    acc_mpi = [0.0] * N if (cfg.get("integrate_mpi") and hist is not None) else None
    n_int = 0
    for a, b in zip(bps[:-1], bps[1:]):
        if b - a <= 0.0:
            continue
        mid = 0.5 * (a + b)
        if not (0.0 < mid < 1.0):
            continue
        nw, _ = f_jit(jw(), jnp.array(w0), mid)
        ups = np.asarray(nw if container == "restricted" else nw[0])
        for j in range(N):
            acc[decode_parent(ups[j])] += b - a
        n_int += 1
        if acc_mpi is not None:
            sub = dict(cfg)
            h2, _ = run_world(ctx, sub, EventLog(), [w0], [[mid] * R], "mpi")
            if h2 is None:
                acc_mpi = None
            else:
                ups = np.asarray(h2[0][1] if container == "restricted" else h2[0][1][0])
                for j in range(N):
                    acc_mpi[decode_parent(ups[j])] += b - a
    ctx.count("offset_intervals_integrated", n_int)
    for name, got, site in (("jit", acc, "sr." + f_jit.__name__), ("mpi", acc_mpi, site_of("mpi", container))):
        if got is None:
            continue
        err = max(abs(g - e) for g, e in zip(got, q))
        if err > 1e-9 * N:
            ctx.violation(
                "sr.biased_over_offset", site,
                {"trigger": {"container": container}, "weights": w0, "mean_counts": got, "expected": q, "max_err": err},
            )
    digest = arr_hash(np.frombuffer((log.digest() + "|" + "|".join(outs_for_digest)).encode(), np.uint8))
    return {
        "digest": digest,
        "nontrivial": changed,
        "sched_key": arr_hash(np.array(world.sched_trace, dtype=np.int64)),
        "state_keys": [f"{group_of(cfg)}-{route}-{k}-{'near' if nb else 'far'}" for k, nb in zip(cfg["weight_kinds"], cfg["near_breakpoint"])],
        "sim_steps": cfg["rounds"],
        "sim_time": 0.0,
        "sample": {
            "R": R, "n": n, "container": container, "route": route, "rounds": cfg["rounds"],
            "weight_kinds": cfg["weight_kinds"], "weights_round0": w0, "zeta_root_round0": z,
            "selected_parents_round0_jit": p_jit, "schedule": world.sched_trace[:40],
            "policy": cfg["sched"]["policy"], "p_rendezvous": cfg["sched"]["p_rendezvous"],
            "events_head": log.head[:12],
        },
    }


# ------------------------------------------------------------------ shrinking


def shrink_candidates(cfg, decisions):
    from ..shrink import decision_candidates

    if cfg.get("driver"):
        for dec in decision_candidates(decisions):
            yield cfg, dec
        return
    c = dict(cfg)
    if cfg["rounds"] > 1:
        for keep in (1, cfg["rounds"] - 1):
            d = dict(cfg)
            d["rounds"] = keep
            for k in ("weight_kinds", "weights", "zetas", "near_breakpoint"):
                d[k] = cfg[k][:keep]
            yield d, decisions
        # drop the first round
        d = dict(cfg)
        d["rounds"] = cfg["rounds"] - 1
        for k in ("weight_kinds", "weights", "zetas", "near_breakpoint"):
            d[k] = cfg[k][1:]
        yield d, decisions
    if cfg["sched"]["policy"] != "random" or cfg["sched"]["p_rendezvous"] != 0.0:
        d = dict(cfg)
        d["sched"] = dict(cfg["sched"], policy="random", p_rendezvous=0.0)
        yield d, decisions
    if cfg.get("integrate_mpi"):
        yield dict(cfg, integrate_mpi=False), decisions
    # simpler numbers
    for t in range(cfg["rounds"]):
        w = cfg["weights"][t]
        simple = [float(round(x)) if abs(x) >= 0.5 else (0.0 if x == 0.0 else math.copysign(1.0, x)) for x in w]
        if simple != w and sum(abs(x) for x in simple) > 0:
            d = dict(cfg)
            d["weights"] = [list(x) for x in cfg["weights"]]
            d["weights"][t] = simple
            yield d, decisions
        if any(z != 0.5 for z in cfg["zetas"][t]):
            d = dict(cfg)
            d["zetas"] = [list(x) for x in cfg["zetas"]]
            d["zetas"][t] = [0.5] * cfg["R"]
            yield d, decisions
    for dec in decision_candidates(decisions):
        yield c, dec
