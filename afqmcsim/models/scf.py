"""Independent (NumPy) Hartree-Fock solver for Hamiltonians given by h1 (per spin) and
symmetric Cholesky matrices: used to hand the library a trial that is converged by someone
other than the library's own optimiser, and to test that the plain Roothaan iteration is
stable at that solution."""
import numpy as np


def _jk(L, da, db):
    dt = da + db
    J = np.einsum("gij,g->ij", L, np.einsum("gij,ij->g", L, dt))
    Ka = np.einsum("gik,kl,glj->ij", L, da, L)
    Kb = np.einsum("gik,kl,glj->ij", L, db, L)
    return J, Ka, Kb


def fock(h1, L, da, db):
    J, Ka, Kb = _jk(L, da, db)
    return h1[0] + J - Ka, h1[1] + J - Kb


def _occ(F, n):
    e, c = np.linalg.eigh(F)
    gap = e[n] - e[n - 1] if 0 < n < len(e) else np.inf
    return c[:, :n], gap


def roothaan_step(h1, L, da, db, nelec):
    fa, fb = fock(h1, L, da, db)
    ca, ga = _occ(fa, nelec[0])
    cb, gb = _occ(fb, nelec[1])
    return ca @ ca.T, cb @ cb.T, ca, cb, min(ga, gb)


def solve(h1, chol, nelec, c0a, c0b, restricted=False, max_iter=2000, tol=1e-12):
    """Damped Roothaan iteration.  Returns dict(ca, cb, converged, gap, stable)."""
    norb = h1.shape[-1]
    h1 = np.array([(h1[0] + h1[0].T) / 2, (h1[1] + h1[1].T) / 2])
    if restricted:
        hm = (h1[0] + h1[1]) / 2
        h1 = np.array([hm, hm])
    L = np.asarray(chol).reshape(-1, norb, norb)
    da, db = c0a @ c0a.T, c0b @ c0b.T
    conv = False
    gap = 0.0
    for it in range(max_iter):
        na, nb, ca, cb, gap = roothaan_step(h1, L, da, db, nelec)
        err = max(np.max(np.abs(na - da)), np.max(np.abs(nb - db)))
        if err < tol:
            conv = True
            da, db = na, nb
            break
        mix = 0.5 if it < 200 else 0.2
        da, db = (1 - mix) * da + mix * na, (1 - mix) * db + mix * nb
    # stability of the plain (undamped) iteration, which is what the library runs 30 times
    sa, sb = da.copy(), db.copy()
    stable = conv
    if conv:
        for _ in range(30):
            sa, sb, ca2, cb2, g2 = roothaan_step(h1, L, sa, sb, nelec)
        stable = max(np.max(np.abs(sa - da)), np.max(np.abs(sb - db))) < 1e-9
        _, _, ca, cb, gap = roothaan_step(h1, L, da, db, nelec)
    return {"ca": ca, "cb": cb, "converged": conv, "gap": float(gap), "stable": bool(stable), "da": da, "db": db}
