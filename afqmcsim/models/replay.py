"""Replay model of sampler.propagate_phaseless / _ad_block: the same jax.random field
stream pushed through *public single steps* (prop.propagate) with an explicit overlap
refresh after every walker modification, public calc_energy for the measurement and the
documented large-deviation capping.  Written as a plain Python loop (no lax.scan, no
checkpoint), so it is the step-by-step oracle that C08 and C12 name."""
import numpy as np

_JIT = {}


def public_calls(trial):
    """jit-wrapped public measurement calls (un-jitted they re-trace their lax.scan on
    every call, which is only slow, not different)."""
    key = ("calls", trial)
    if key not in _JIT:
        import jax

        _JIT[key] = (
            jax.jit(lambda w, wd: trial.calc_overlap(w, wd)),
            jax.jit(lambda w, hd, wd: trial.calc_energy(w, hd, wd)),
        )
    return _JIT[key]


def replay_phaseless(sampler, ham_data, prop, prop_data, trial, wave_data, do_sr=True, trace=None,
                     field_hook=None, info=None):
    """Returns (energy, prop_data, blocks) where blocks is a list of
    (block_energy, block_weight, weights_before_sr?)."""
    import jax.numpy as jnp
    from jax import random

    pd = {k: v for k, v in prop_data.items() if not k.startswith("verif_")}
    if isinstance(pd["walkers"], list):
        pd["walkers"] = list(pd["walkers"])
    calc_overlap, calc_energy = public_calls(trial)
    pd["overlaps"] = calc_overlap(pd["walkers"], wave_data)
    n_killed = 0.0
    pd["pop_control_ene_shift"] = pd["e_estimate"]
    nchol = ham_data["chol"].shape[0]
    cap = float(np.sqrt(2.0 / prop.dt))
    block_e, block_w, pre_sr = [], [], []
    n_sr = sampler.n_sr_blocks if do_sr else 1
    for _ in range(n_sr):
        for _ in range(sampler.n_ene_blocks):
            pd["key"], subkey = random.split(pd["key"])
            fields = random.normal(subkey, shape=(sampler.n_prop_steps, prop.n_walkers, nchol))
            for s in range(sampler.n_prop_steps):
                f_s = fields[s] if field_hook is None else field_hook(fields[s])
                pd = prop.propagate(trial, ham_data, pd, f_s, wave_data)
                if trace is not None:
                    trace.append(("step", np.asarray(pd["weights"]).copy()))
            w = np.asarray(pd["weights"])
            n_killed += w.size - np.count_nonzero(w)
            if info is not None:
                info["max_detR_dev"] = max(info.get("max_detR_dev", 0.0), _detr_dev(pd["walkers"], w))
            pd = prop.orthonormalize_walkers(pd)
            pd["overlaps"] = calc_overlap(pd["walkers"], wave_data)  # refresh after QR
            e = np.real(np.asarray(calc_energy(pd["walkers"], ham_data, wave_data)))
            e_est = float(np.asarray(pd["e_estimate"]))
            e = np.where(np.abs(e - e_est) > cap, e_est, e)
            bw = float(np.sum(w))
            # weighted mean: a zero-weight sample contributes nothing, whatever its value
            be = float(np.sum(np.where(w > 0, e, 0.0) * w) / bw) if bw != 0.0 else float("nan")
            pd["pop_control_ene_shift"] = 0.9 * pd["pop_control_ene_shift"] + 0.1 * be
            block_e.append(be)
            block_w.append(bw)
            pre_sr.append((w.copy(), e.copy()))
        if do_sr:
            before = _first_block(pd["walkers"])
            pd = prop.stochastic_reconfiguration_local(pd)
            if info is not None and not np.array_equal(before, _first_block(pd["walkers"])):
                info["sr_changed"] = info.get("sr_changed", 0) + 1
            pd["overlaps"] = calc_overlap(pd["walkers"], wave_data)  # refresh after SR
    be, bw = np.array(block_e), np.array(block_w)
    energy = float(np.sum(be * bw) / np.sum(bw))
    pd["n_killed_walkers"] = n_killed / (sampler.n_sr_blocks * sampler.n_ene_blocks * prop.n_walkers)
    return energy, pd, {"block_energy": be, "block_weight": bw, "pre_sr": pre_sr}


def _first_block(walkers):
    return np.asarray(walkers[0] if isinstance(walkers, list) else walkers).copy()


def _detr_dev(walkers, weights):
    """max over live walkers of |det R - 1| of the pending re-orthonormalisation."""
    from ad_afqmc import linalg_utils

    if isinstance(walkers, list):
        _, n = linalg_utils.qr_vmap_uhf(list(walkers))
        n = np.asarray(n[0] * n[1])
    else:
        _, n = linalg_utils.qr_vmap(walkers)
        n = np.asarray(n) ** 2
    live = np.asarray(weights) > 0
    if not np.any(live):
        return 0.0
    v = np.abs(n[live] - 1.0)
    v = v[np.isfinite(v)]
    return float(np.max(v)) if v.size else 0.0


def replay_entry(s, sampler, entry, pd, plain_prop, trace=None, field_hook=None, info=None):
    """Replay of one sampler entry point (plain or AD primal at zero coupling): the
    entry point's prelude through the public API, then the step-by-step replay."""
    ham, trial = s.ham, s.trial
    ham_data, wave_data = dict(s.ham_data), dict(s.wave_data)
    if entry != "plain":
        if entry in ("ad", "ad_nosr"):
            wave_data = trial.optimize(dict(ham_data), dict(wave_data))
        ham_data = ham.build_measurement_intermediates(dict(ham_data), trial, wave_data)
        ham_data = ham.build_propagation_intermediates(ham_data, plain_prop, trial, wave_data)
    do_sr = entry in ("plain", "ad", "ad_norot")
    return replay_phaseless(sampler, ham_data, plain_prop, pd, trial, wave_data, do_sr=do_sr, trace=trace,
                            field_hook=field_hook, info=info)
