"""Fock-space engine: the one place where second quantisation is written down.

Spin orbitals are ordered all-alpha then all-beta; a determinant is an (alpha string,
beta string) pair with creation operators in ascending orbital order, alpha string
first.  Sectors with fixed (n_up, n_dn) only.  Plain NumPy, dense matrices; meant for
<= 4-5 orbitals."""
import itertools
from functools import lru_cache

import numpy as np
import scipy.linalg


@lru_cache(maxsize=None)
def strings(norb, n):
    """All occupation tuples (sorted orbital indices) of n electrons in norb orbitals."""
    return tuple(itertools.combinations(range(norb), n))


@lru_cache(maxsize=None)
def _excitation_table(norb, n):
    """(p, q) -> list of (row, col, sign) for a^+_p a_q in the n-electron string basis."""
    strs = strings(norb, n)
    index = {s: i for i, s in enumerate(strs)}
    table = {}
    for col, s in enumerate(strs):
        occ = set(s)
        for q in s:
            # annihilate q: sign = (-1)^(number of occupied orbitals before q)
            sq = (-1) ** sum(1 for x in s if x < q)
            rest = tuple(x for x in s if x != q)
            for p in range(norb):
                if p in rest:
                    continue
                sp = (-1) ** sum(1 for x in rest if x < p)
                new = tuple(sorted(rest + (p,)))
                table.setdefault((p, q), []).append((index[new], col, sq * sp))
    return table


def one_body_string_matrix(A, norb, n):
    """Matrix of sum_pq A_pq a^+_p a_q in the n-electron string basis of one spin."""
    dim = len(strings(norb, n))
    M = np.zeros((dim, dim), dtype=np.result_type(A, float))
    if n == 0:
        return M
    tab = _excitation_table(norb, n)
    for (p, q), entries in tab.items():
        a = A[p, q]
        if a == 0:
            continue
        for r, c, sg in entries:
            M[r, c] += sg * a
    return M


class Sector:
    """(n_up, n_dn) sector of norb orbitals; state index = alpha_index * n_beta_strings + beta_index."""

    def __init__(self, norb, nelec):
        self.norb = norb
        self.nup, self.ndn = int(nelec[0]), int(nelec[1])
        self.sa = strings(norb, self.nup)
        self.sb = strings(norb, self.ndn)
        self.da, self.db = len(self.sa), len(self.sb)
        self.dim = self.da * self.db

    # ---- operators -----------------------------------------------------------
    def one_body(self, A_up, A_dn=None):
        """sum_pq,s A^s_pq a^+_ps a_qs  (an even operator on each spin: no cross sign)."""
        A_dn = A_up if A_dn is None else A_dn
        Ma = one_body_string_matrix(np.asarray(A_up), self.norb, self.nup)
        Mb = one_body_string_matrix(np.asarray(A_dn), self.norb, self.ndn)
        return np.kron(Ma, np.eye(self.db)) + np.kron(np.eye(self.da), Mb)

    def hamiltonian(self, h0, h1, chol):
        """H = h0 + sum_s h1[s] + 1/2 sum_g (Lhat_g^2 - (L_g^2)hat), L_g symmetric.
        (1/2 sum L_pq L_rs a+_p a+_r a_s a_q = 1/2 [Lhat^2 - (L L)hat])"""
        h1 = np.asarray(h1)
        H = float(h0) * np.eye(self.dim) + self.one_body(h1[0], h1[1])
        for L in np.asarray(chol).reshape(-1, self.norb, self.norb):
            Lh = self.one_body(L)
            H = H + 0.5 * (Lh @ Lh - self.one_body(L @ L))
        return H

    def number_product(self, i):
        """n_{i,up} n_{i,dn}"""
        P = np.zeros((self.norb, self.norb))
        P[i, i] = 1.0
        Ma = one_body_string_matrix(P, self.norb, self.nup)
        Mb = one_body_string_matrix(P, self.norb, self.ndn)
        return np.kron(Ma, Mb)

    # ---- states ----------------------------------------------------------------
    def det_state(self, c_up, c_dn):
        """|phi> = prod_i (sum_p C_up[p,i] a+_p,up) prod_j (sum_q C_dn[q,j] a+_q,dn) |0>."""
        c_up, c_dn = np.asarray(c_up), np.asarray(c_dn)
        va = np.array([np.linalg.det(c_up[list(s), :]) if self.nup else 1.0 for s in self.sa], dtype=complex)
        vb = np.array([np.linalg.det(c_dn[list(s), :]) if self.ndn else 1.0 for s in self.sb], dtype=complex)
        return np.kron(va, vb)

    def ghf_state(self, c):
        """Projection of a GHF determinant (2 norb x n_up+n_dn coefficient matrix, alpha rows
        first) onto this sector: amplitude on (sa, sb) = det C[sa U (norb + sb), :]."""
        c = np.asarray(c)
        out = np.zeros(self.dim, dtype=complex)
        for ia, sa in enumerate(self.sa):
            for ib, sb in enumerate(self.sb):
                rows = list(sa) + [self.norb + x for x in sb]
                out[ia * self.db + ib] = np.linalg.det(c[rows, :])
        return out

    def occupation_state(self, det_up, det_dn, coeff=1.0):
        """coeff * |D>, D given by occupation-number vectors (alpha string x beta string convention)."""
        sa = tuple(i for i, x in enumerate(det_up) if x)
        sb = tuple(i for i, x in enumerate(det_dn) if x)
        out = np.zeros(self.dim, dtype=complex)
        out[self.sa.index(sa) * self.db + self.sb.index(sb)] = coeff
        return out

    def index_to_occ(self, k):
        ia, ib = divmod(k, self.db)
        du = [1 if i in self.sa[ia] else 0 for i in range(self.norb)]
        dd = [1 if i in self.sb[ib] else 0 for i in range(self.norb)]
        return du, dd


def trial_state(sec, kind, wave_data):
    """Fock vector of a library trial (the ket whose bra the trial's overlap routine evaluates)."""
    if kind == "rhf":
        c = np.asarray(wave_data["mo_coeff"])
        return sec.det_state(c[:, : sec.nup], c[:, : sec.ndn])
    if kind in ("uhf", "uhf_cpmc"):
        return sec.det_state(np.asarray(wave_data["mo_coeff"][0]), np.asarray(wave_data["mo_coeff"][1]))
    if kind in ("ghf", "ghf_cpmc"):
        # the GHF routines contract with C^T (no conjugate): as a bra that is the determinant of conj(C)
        return sec.ghf_state(np.conj(np.asarray(wave_data["mo_coeff"])))
    if kind == "noci":
        ci = np.asarray(wave_data["ci_coeffs_dets"][0])
        du, dd = np.asarray(wave_data["ci_coeffs_dets"][1][0]), np.asarray(wave_data["ci_coeffs_dets"][1][1])
        return sum(ci[k] * sec.det_state(du[k][:, : sec.nup], dd[k][:, : sec.ndn]) for k in range(len(ci)))
    raise ValueError(kind)


def extract_bra(sec, overlap_fn, restricted, seed=12345, tol=1e-9):
    """Fock vector psi with <psi|phi> = overlap_fn(phi) for every determinant phi, for a trial that is given only as
    an overlap routine (hand-coded CI-type trials).  A legitimate bra is linear in the many-body state, i.e. bilinear
    in the alpha and beta minors of the walker: O(up, dn) = sum M[sa, sb] det(up[sa]) det(dn[sb]).  M is fitted to
    the routine on random complex walkers (basis determinants themselves are singular points of the Green's-function
    formulas) and verified on a second set; a residual above tol means the routine is not a wave function at all.
    overlap_fn(up, dn) for unrestricted, overlap_fn(w) for restricted routines (then only the part of M that is
    symmetric under exchange of the two strings is determined, which is all that restricted walkers ever see)."""
    rs = np.random.RandomState(seed)
    da, db = sec.da, sec.db

    def minors(w, strs):
        return np.array([np.linalg.det(w[list(st), :]) for st in strs])

    def sample(n):
        rows, vals = [], []
        for _ in range(n):
            up = rs.normal(size=(sec.norb, sec.nup)) + 1j * rs.normal(size=(sec.norb, sec.nup))
            if restricted:
                dn = up[:, : sec.ndn]
                val = overlap_fn(up)
            else:
                dn = rs.normal(size=(sec.norb, sec.ndn)) + 1j * rs.normal(size=(sec.norb, sec.ndn))
                val = overlap_fn(up, dn)
            ma, mb = minors(up, sec.sa), minors(dn, sec.sb)
            if restricted:
                f = np.outer(ma, mb)
                f = f + f.T - np.diag(np.diag(f))
                rows.append(f[np.triu_indices(da)])
            else:
                rows.append(np.outer(ma, mb).ravel())
            vals.append(complex(val))
        return np.array(rows), np.array(vals)

    nunk = da * (da + 1) // 2 if restricted else da * db
    A, b = sample(3 * nunk + 8)
    x, *_ = np.linalg.lstsq(A, b, rcond=None)
    A2, b2 = sample(nunk + 8)
    res = float(np.max(np.abs(A2 @ x - b2) / np.maximum(np.abs(b2), 1e-12)))
    if not res <= tol:
        raise ValueError(f"overlap routine is not bilinear in the walker's minors (relative residual {res:.2e})")
    if restricted:
        M = np.zeros((da, da), dtype=complex)
        M[np.triu_indices(da)] = x
        M = M + M.T - np.diag(np.diag(M))
    else:
        M = x.reshape(da, db)
    return np.conj(M).ravel()


def overlap(psi, phi):
    return np.vdot(psi, phi)


def expm(M):
    return scipy.linalg.expm(M)
