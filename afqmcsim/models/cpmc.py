"""Reference model of one constrained-path (CPMC) step for the Hubbard model with
on-site repulsion and discrete Hubbard-Stratonovich fields, on top of the Fock engine.

  exp(-dt U n_up n_dn) = 1/2 sum_{x=0,1} b_up(x)^{n_up} b_dn(x)^{n_dn},
  b(0) = e^{-dt U/2} (e^{+gamma}, e^{-gamma}),  b(1) = e^{-dt U/2} (e^{-gamma}, e^{+gamma}),  cosh gamma = e^{dt U/2}

One step = exp(-dt K/2) [site by site: choose x_i with probability p(x) ~ max(0, Re ratio(x))/2,
multiply the weight by sum_x p~(x)] exp(-dt K/2), weight *= exp(dt E_shift).
K is the lattice hopping matrix itself."""
import itertools
import math

import numpy as np
import scipy.linalg

from . import fock


class CPMCModel:
    def __init__(self, n_sites, nelec, K, U, dt, psi):
        self.n = n_sites
        self.nelec = tuple(nelec)
        self.sec = fock.Sector(n_sites, nelec)
        K = np.asarray(K, dtype=float)
        # one-body (hopping + possibly spin-dependent pinning field) matrix per spin
        self.K = np.array([K, K]) if K.ndim == 2 else K
        self.U, self.dt = float(U), float(dt)
        self.psi = np.asarray(psi)
        self.expK2 = np.array([scipy.linalg.expm(-self.dt * self.K[s] / 2.0) for s in (0, 1)])
        self.expK = self.expK2[0]
        g = math.acosh(math.exp(self.dt * self.U / 2.0))
        c = math.exp(-self.dt * self.U / 2.0)
        # hs[x] = (factor on the up row, factor on the down row)
        self.hs = c * np.array([[math.exp(g), math.exp(-g)], [math.exp(-g), math.exp(g)]])

    def ov(self, up, dn):
        return np.vdot(self.psi, self.sec.det_state(up, dn))

    def one_body(self, up, dn):
        return self.expK2[0] @ up, self.expK2[1] @ dn

    def site_options(self, up, dn, i):
        out = []
        for x in (0, 1):
            u2, d2 = up.copy(), dn.copy()
            u2[i, :] *= self.hs[x, 0]
            d2[i, :] *= self.hs[x, 1]
            out.append((u2, d2))
        return out

    def step(self, up, dn, ov, w, uniforms, e_shift, variant="fast"):
        """Returns dict with the new state and the bookkeeping needed by the oracles."""
        info = {"clipped": False, "near": False, "choices": [], "prob0": [], "P": 1.0}
        up, dn = self.one_body(np.asarray(up, dtype=float), np.asarray(dn, dtype=float))
        ov1 = self.ov(up, dn)
        r = (ov1 / ov).real
        if r < 0:
            info["one_body_sign_flip"] = True
        w = w * r
        if abs(w - 1e-8) < 1e-14 + 1e-7 * 1e-8:
            info["near"] = True
        if w < 1e-8:
            if w != 0.0:
                info["clipped"] = True
            w = 0.0
        ov = ov1
        for i in range(self.n):
            opts = self.site_options(up, dn, i)
            ratios = [(self.ov(*o) / ov).real if ov != 0 else float("nan") for o in opts]
            pt = []
            for rr in ratios:
                v = rr / 2.0
                thr = 1e-8 if variant == "slow" else 0.5e-8  # fast clips the ratio, slow clips ratio/2
                if abs(v - thr) <= 1e-7 * thr:
                    info["near"] = True
                if not (v >= thr):
                    if v == v and v != 0.0:
                        info["clipped"] = True
                    v = 0.0
                pt.append(v)
            norm = pt[0] + pt[1]
            if norm == 0.0 or norm != norm:
                info["clipped"] = True
                info["dead"] = True
                w = 0.0
                ov = 0.0
                info["choices"].append(None)
                info["prob0"].append(float("nan"))
                break
            p0 = pt[0] / norm
            u = uniforms[i]
            if abs(u - p0) <= 1e-9:
                info["near"] = True
            x = 0 if u < p0 else 1
            info["choices"].append(x)
            info["prob0"].append(p0)
            info["P"] *= p0 if x == 0 else (1.0 - p0)
            up, dn = opts[x]
            ov = ov * (2.0 * pt[x])
            w = w * norm
        if not info.get("dead"):
            up, dn = self.one_body(up, dn)
            ov3 = self.ov(up, dn)
            r = (ov3 / ov).real
            w = w * r
            if abs(w - 1e-8) <= 1e-7 * 1e-8:
                info["near"] = True
            if w < 1e-8:
                if w != 0.0:
                    info["clipped"] = True
                w = 0.0
            ov = ov3
        with np.errstate(all="ignore"):
            w = float(w * np.exp(self.dt * e_shift))
        if w != w:  # 0 * inf: the library sets weights that are not a number to zero
            w = 0.0
        if abs(w - 100.0) <= 1e-7 * 100.0:
            info["near"] = True
        if w > 100.0:
            info["clipped"] = True
            w = 0.0
        info.update(up=up, dn=dn, ov=ov, w=w)
        return info

    def forced_uniforms(self, config):
        """Uniform numbers that force the given branch at every site whose branch
        probability is not (numerically) zero: 0 -> u = 1e-12, 1 -> u = 1 - 1e-12."""
        return [1e-12 if x == 0 else 1.0 - 1e-12 for x in config]

    def exact_target(self, up, dn, ov, e_shift):
        """exp(dt E) exp(-dt K/2) prod_i exp(-dt U n_i,up n_i,dn) exp(-dt K/2) |phi> / <psi|phi>"""
        sec = self.sec
        eK = scipy.linalg.expm(-self.dt / 2.0 * sec.one_body(self.K[0], self.K[1]))
        D = sum(sec.number_product(i) for i in range(self.n))
        eU = scipy.linalg.expm(-self.dt * self.U * D)
        phi = sec.det_state(up, dn)
        return math.exp(self.dt * e_shift) * (eK @ (eU @ (eK @ phi))) / ov

    def exhaustive_sum(self, up, dn, ov, e_shift, variant="fast"):
        """sum over all 2^n configurations of P(x) * weight factor * |phi'(x)> / ov'(x)."""
        acc = np.zeros(self.sec.dim, dtype=complex)
        clipped = False
        for cfg in itertools.product((0, 1), repeat=self.n):
            r = self.step(up, dn, ov, 1.0, self.forced_uniforms(cfg), e_shift, variant)
            clipped = clipped or r["clipped"]
            if r["w"] == 0.0 or r["ov"] == 0.0:
                continue
            acc += r["P"] * r["w"] * self.sec.det_state(r["up"], r["dn"]) / r["ov"]
        return acc, clipped


def gaussian_for_uniform(u):
    """Inverse of the map the library applies: uniform = (erf(g / sqrt 2) + 1) / 2."""
    from scipy.special import erfinv

    if u <= 0.0:
        return -40.0
    if u >= 1.0:
        return 40.0
    return float(math.sqrt(2.0) * erfinv(2.0 * u - 1.0))


def node_straddling_walker(model, up, dn, rs, tries=20):
    """A walker with positive trial overlap whose overlap turns negative under the one-body
    half step exp(-dt K/2): found by bisection on the segment between a positive-overlap
    walker and a negative-overlap one (the two zero crossings - before and after the half
    step - differ slightly).  Returns (up, dn) or None."""
    def f0(u, d):
        return model.ov(u, d).real

    def f1(u, d):
        return model.ov(*model.one_body(u, d)).real

    for _ in range(tries):
        bu = up + rs.normal(size=up.shape)
        bd = dn + rs.normal(size=dn.shape)
        if f0(bu, bd) >= 0:
            bu[:, 0] = -bu[:, 0]
            if f0(bu, bd) >= 0:
                continue

        def at(t):
            return (1 - t) * up + t * bu, (1 - t) * dn + t * bd

        def root(f):
            lo, hi = 0.0, 1.0
            if f(*at(lo)) <= 0 or f(*at(hi)) >= 0:
                return None
            for _ in range(200):
                mid = 0.5 * (lo + hi)
                if f(*at(mid)) > 0:
                    lo = mid
                else:
                    hi = mid
            return lo, hi

        r0, r1 = root(f0), root(f1)
        if r0 is None or r1 is None:
            continue
        t0, t1 = r0[0], r1[1]
        if t1 < t0 and (t0 - t1) > 1e-9:
            # between the crossings: still positive before the half step, negative after it
            t = 0.5 * (t0 + t1)
            u, d = at(t)
            if f0(u, d) > 0 and f1(u, d) < 0:
                return u, d
    return None


def site_node_walker(model, up, dn, rs, site, field, tries=40):
    """A walker that is fine up to the two-body update of `site`, where exactly ONE of the two
    discrete field values is forbidden by the constraint (overlap ratio < 0 for `field`, > 0 for
    the other one).  Found by bisection like node_straddling_walker.  Returns (up, dn) or None."""
    def ob(u, d):
        return model.one_body(u, d)

    def f_keep(u, d):  # must stay positive: overlap before and after the first half step, and the allowed field
        u1, d1 = ob(u, d)
        other = model.site_options(u1, d1, site)[1 - field]
        # earlier sites are updated first in a sweep; keep it simple: only site 0 is targeted by callers
        return min(model.ov(u, d).real, model.ov(u1, d1).real, model.ov(*other).real)

    def f_flip(u, d):  # must become negative: the forbidden field
        u1, d1 = ob(u, d)
        return model.ov(*model.site_options(u1, d1, site)[field]).real

    for _ in range(tries):
        bu = up + rs.normal(size=up.shape)
        bd = dn + rs.normal(size=dn.shape)

        def at(t):
            return (1 - t) * up + t * bu, (1 - t) * dn + t * bd

        if f_flip(*at(0.0)) <= 0 or f_flip(*at(1.0)) >= 0:
            continue
        lo, hi = 0.0, 1.0
        for _ in range(200):
            mid = 0.5 * (lo + hi)
            if f_flip(*at(mid)) > 0:
                lo = mid
            else:
                hi = mid
        # a little beyond the crossing of the forbidden field
        for step in (1e-3, 1e-2, 5e-2):
            t = min(1.0, hi + step * (1.0 - hi))
            u, d = at(t)
            if f_flip(u, d) < 0 and f_keep(u, d) > 1e-6:
                return u, d
    return None
