"""Reference systematic-resampling comb, written independently of ad_afqmc/sr.py
(no searchsorted, plain Python floats)."""
import math


def cumulative(abs_weights):
    c, acc = [], 0.0
    for a in abs_weights:
        acc = acc + float(a)
        c.append(acc)
    return c


def comb_indices(abs_weights, zeta):
    """Index selected by each of the N teeth (k + zeta)/N * W, k = 0..N-1:
    the first walker whose cumulative weight reaches the tooth."""
    n = len(abs_weights)
    c = cumulative(abs_weights)
    total = c[-1]
    out = []
    i = 0
    for k in range(n):
        z = (k + float(zeta)) / n * total
        while i < n - 1 and c[i] < z:
            i += 1
        out.append(i)
    return out


def breakpoints(abs_weights):
    """All offsets zeta in (0,1) at which some tooth crosses a cumulative weight, i.e.
    where the selection changes.  zeta_b = N c_i / W - k for the unique integer k that
    puts it into [0,1)."""
    n = len(abs_weights)
    c = cumulative(abs_weights)
    total = c[-1]
    bps = set()
    for i in range(n - 1):
        x = n * c[i] / total
        frac = x - math.floor(x)
        if 0.0 < frac < 1.0:
            bps.add(frac)
    return sorted(bps)


def distance_to_breakpoint(abs_weights, zeta):
    bps = breakpoints(abs_weights) + [0.0, 1.0]
    return min(abs(zeta - b) for b in bps)


def expected_counts(abs_weights):
    n = len(abs_weights)
    total = cumulative(abs_weights)[-1]
    return [n * float(a) / total for a in abs_weights]


def counts_from_indices(indices, n):
    cnt = [0] * n
    for i in indices:
        cnt[int(i)] += 1
    return cnt
