"""Reference model of one phaseless (and one free-projection) AFQMC step, written in
NumPy on top of the Fock engine, plus the exact field average by tensor Gauss-Hermite
quadrature that validates the model itself against exp(-dt (H - E))."""
import itertools
import math

import numpy as np
import scipy.linalg

from . import fock


class StepModel:
    def __init__(self, norb, nelec, h0, h1, chol, rdm1, dt, n_exp_terms, psi, restricted=False, ene0=0.0):
        self.norb, self.nelec = norb, tuple(nelec)
        self.sec = fock.Sector(norb, nelec)
        self.h0 = float(h0)
        h1 = np.asarray(h1, dtype=float)
        h1 = np.array([(h1[0] + h1[0].T) / 2.0, (h1[1] + h1[1].T) / 2.0])
        self.h1 = h1
        self.L = np.asarray(chol, dtype=float).reshape(-1, norb, norb)
        self.G = self.L.shape[0]
        # a density matrix is Hermitian, not necessarily real: tr(L rdm1) is real for symmetric real L
        rdm1 = np.asarray(rdm1)
        lc = np.array([np.sum(Lg * (rdm1[0] + rdm1[1])) for Lg in self.L])
        # mean-field values tr(L rdm1); every formula below is analytic in them, so a complex shift (a "density matrix"
        # that is not Hermitian) is subtracted and compensated consistently as well
        self.l = lc if np.max(np.abs(np.imag(lc)), initial=0.0) > 1e-12 else np.real(lc).astype(float)
        self.dt = float(dt)
        self.n_exp = int(n_exp_terms)
        self.psi = np.asarray(psi)
        self.restricted = restricted
        self.ene0 = float(ene0)
        v0 = 0.5 * sum(Lg @ Lg.T for Lg in self.L) if self.G else np.zeros((norb, norb))
        v1 = -sum(self.l[g] * self.L[g] for g in range(self.G)) if self.G else np.zeros((norb, norb))
        if restricted:
            hm = (h1[0] + h1[1]) / 2.0 - v0 - v1
            self.h_mod = np.array([hm, hm])
        else:
            self.h_mod = np.array([h1[0] - v0 - v1, h1[1] - v0 - v1])
        self.exp_h1 = np.array([scipy.linalg.expm(-self.dt * self.h_mod[s] / 2.0) for s in (0, 1)])
        self.h0_prop = -self.h0 + 0.5 * np.sum(self.l**2)
        if not np.iscomplexobj(self.l):
            self.h0_prop = float(self.h0_prop)
        self.Lhat = [self.sec.one_body(Lg) for Lg in self.L]
        self.H = self.sec.hamiltonian(self.h0, self.h1, self.L)

    # ---- pieces ---------------------------------------------------------------
    def state(self, up, dn):
        return self.sec.det_state(up, dn)

    def overlap(self, up, dn):
        return np.vdot(self.psi, self.state(up, dn))

    def force_bias(self, up, dn):
        phi = self.state(up, dn)
        ov = np.vdot(self.psi, phi)
        return np.array([np.vdot(self.psi, Lh @ phi) / ov for Lh in self.Lhat])

    def local_energy(self, up, dn):
        phi = self.state(up, dn)
        return np.vdot(self.psi, self.H @ phi) / np.vdot(self.psi, phi)

    def taylor(self, xs):
        """T_n(i sqrt(dt) sum_g xs_g L_g) = sum_{k < n_exp_terms} A^k / k!"""
        A = 1j * math.sqrt(self.dt) * np.tensordot(xs, self.L, axes=(0, 0))
        T = np.eye(self.norb, dtype=complex)
        P = np.eye(self.norb, dtype=complex)
        for k in range(1, self.n_exp):
            P = A @ P
            T = T + P / math.factorial(k)
        return T, A

    def propagate_matrices(self, up, dn, xs):
        T, _ = self.taylor(xs)
        return self.exp_h1[0] @ (T @ (self.exp_h1[0] @ up)), self.exp_h1[1] @ (T @ (self.exp_h1[1] @ dn))

    # ---- phaseless ---------------------------------------------------------------
    def phaseless_step(self, up, dn, x, e_shift, overlap_cached=None):
        """Returns dict(up, dn, ov_new, imp (complex importance function), theta, factor
        (weight factor actually applied), pre (factor before the window), xbar)."""
        x = np.asarray(x, dtype=float)
        ov = self.overlap(up, dn) if overlap_cached is None else overlap_cached
        f = self.force_bias(up, dn)
        sq = math.sqrt(self.dt)
        xbar = -1j * sq * (f - self.l)
        xs = x - xbar
        up2, dn2 = self.propagate_matrices(up, dn, xs)
        ov2 = self.overlap(up2, dn2)
        shift_term = 1j * np.sum(xs * self.l)
        fb_term = np.sum(x * xbar - xbar * xbar / 2.0)
        with np.errstate(all="ignore"):
            pref = np.exp(-sq * shift_term + fb_term + self.dt * (e_shift + self.h0_prop))
            imp = pref * ov2 / ov
            theta = np.angle(np.exp(-sq * shift_term) * ov2 / ov)
            pre = np.abs(imp) * np.cos(theta)
        factor = pre
        if np.isnan(factor):
            factor = 0.0
        if factor < 1.0e-3:
            factor = 0.0
        if factor > 100.0:
            factor = 0.0
        return dict(up=up2, dn=dn2, ov_new=ov2, imp=imp, pref=pref, theta=theta, factor=float(factor), pre=pre, xbar=xbar)

    def near_threshold(self, pre, w_old=1.0, rel=1e-7):
        """True if the un-clipped factor sits within rel of a decision threshold."""
        if not np.isfinite(pre):
            return False
        for t in (1.0e-3, 100.0):
            if abs(pre - t) <= rel * t:
                return True
        if abs(pre) <= 1e-12:  # cos(theta) = 0
            return True
        if abs(pre * w_old - 100.0) <= rel * 100.0:
            return True
        return False

    # ---- free projection ------------------------------------------------------
    def free_step(self, up, dn, x):
        """Un-normalised free-projection step: returns (up', dn') = c_s(x) B_s(x) (up, dn) with
        the per-spin constants multiplying to exp(-i sqrt(dt) x.l + dt(-h0 + l^2/2 + ene0))."""
        x = np.asarray(x, dtype=float)
        sq = math.sqrt(self.dt)
        up2, dn2 = self.propagate_matrices(up, dn, x)
        total = np.exp(-sq * 1j * np.sum(x * self.l) + self.dt * (self.h0_prop + self.ene0))
        # the library distributes the constant over spins and columns; any distribution
        # represents the same many-body state, so the model puts it on one column
        nu = self.nelec[0]
        up2 = up2.copy()
        up2[:, 0] = up2[:, 0] * total
        return up2, dn2

    # ---- exact field average ----------------------------------------------------
    def gh_nodes(self, order):
        xs, ws = np.polynomial.hermite_e.hermegauss(order)
        ws = ws / np.sqrt(2.0 * np.pi)
        nodes = np.array(list(itertools.product(xs, repeat=self.G))) if self.G else np.zeros((1, 0))
        weights = np.array([np.prod(w) for w in itertools.product(ws, repeat=self.G)]) if self.G else np.ones(1)
        return nodes, weights

    def phaseless_average(self, up, dn, e_shift, order=6):
        """sum_x w(x) I(x) |phi'(x)> / <psi|phi'(x)>  (the left-hand side of C04)."""
        nodes, weights = self.gh_nodes(order)
        acc = np.zeros(self.sec.dim, dtype=complex)
        for x, w in zip(nodes, weights):
            r = self.phaseless_step(up, dn, x, e_shift)
            acc += w * r["imp"] * self.state(r["up"], r["dn"]) / r["ov_new"]
        return acc

    def phaseless_target(self, up, dn, e_shift):
        phi = self.state(up, dn)
        return scipy.linalg.expm(-self.dt * (self.H - e_shift * np.eye(self.sec.dim))) @ phi / np.vdot(self.psi, phi)

    def free_average(self, up, dn, order=6):
        nodes, weights = self.gh_nodes(order)
        acc = np.zeros(self.sec.dim, dtype=complex)
        for x, w in zip(nodes, weights):
            u2, d2 = self.free_step(up, dn, x)
            acc += w * self.state(u2, d2)
        return acc

    def free_target(self, up, dn):
        phi = self.state(up, dn)
        return scipy.linalg.expm(-self.dt * (self.H - self.ene0 * np.eye(self.sec.dim))) @ phi


def with_dt(model_kwargs, dt):
    kw = dict(model_kwargs)
    kw["dt"] = dt
    return StepModel(**kw)


def ladder_ratios(make_model, up, dn, dts, kind="phaseless", e_shift=0.0, order=6):
    """Residual of the averaged identity on a dt ladder (each dt half the previous) and
    the ratios of consecutive residuals (about 4 for an O(dt^2) local error)."""
    res = []
    for dt in dts:
        m = make_model(dt)
        if kind == "phaseless":
            a, t = m.phaseless_average(up, dn, e_shift, order), m.phaseless_target(up, dn, e_shift)
        else:
            a, t = m.free_average(up, dn, order), m.free_target(up, dn)
        res.append(float(np.linalg.norm(a - t) / np.linalg.norm(t)))
    ratios = [res[i] / res[i + 1] if res[i + 1] > 0 else float("inf") for i in range(len(res) - 1)]
    return res, ratios
