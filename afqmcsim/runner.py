"""Worker pool, run bookkeeping, shrinking, replay, evidence.

A check module (afqmcsim/checks/<name>.py) provides

    ID, NAME, TITLE
    TIERS = {"quick": dict(runs=..., budget_s=...), "thorough": {...}}
    gen_cfg(seed, index, tier) -> JSON-able dict       (pure function of its arguments)
    group_of(cfg) -> str                                (runs sharing compiled programs)
    execute(cfg, decisions, ctx) -> dict                (raises core.Violation)
    shrink_candidates(cfg, decisions) -> iterable of (cfg, decisions)
    RULE, ASSUMPTIONS, COMPONENTS, REQUIRED_PROBES
"""
import importlib
import json
import os
import subprocess
import sys
import time
import traceback

from . import env
from .core import Decider, HarnessError, Violation, canon, derive_seed, jsonable

CHECKS = {
    "C04": "phaseless_step",
    "C05": "free_step",
    "C07": "sr_world",
    "C08": "coherence",
    "C09": "weights_invariants",
    "C10": "cpmc_step",
    "C11": "zero_variance",
    "C12": "sampler_matrix",
    "C14": "lockstep",
}

KNOWN_FINDINGS_FILE = os.path.join(env.VERIF_ROOT, "known_findings.json")
REPLAY_DIR = os.path.join(env.VERIF_ROOT, "replays")
EVIDENCE_DIR = os.environ.get("VERIF_EVIDENCE_DIR") or os.path.join(env.VERIF_ROOT, "evidence")


def load_check(pid):
    if pid not in CHECKS:
        raise HarnessError(f"no check registered for property {pid}")
    return importlib.import_module(f"afqmcsim.checks.{CHECKS[pid]}")


def load_known_findings(pid):
    try:
        with open(KNOWN_FINDINGS_FILE) as f:
            data = json.load(f)
    except FileNotFoundError:
        return []
    return [e for e in data.get("findings", []) if e.get("property") == pid and e.get("status") == "open"]


def finding_matches(entry, v: Violation):
    if entry.get("klass") != v.klass or entry.get("site") != v.site:
        return False
    trig = (v.detail or {}).get("trigger", {})
    for k, want in entry.get("trigger", {}).items():
        if jsonable(trig.get(k)) != want:
            return False
    return True


class Ctx:
    """Handed to execute(): decision source, known-finding aware violation reporting,
    counters."""

    def __init__(self, decider, known):
        self.decider = decider
        self.known = known
        self.known_hits = {}
        self.stats = {}
        self.probes = {}

    def count(self, name, n=1):
        self.stats[name] = self.stats.get(name, 0) + n

    def probe(self, name, n=1):
        if n:
            self.probes[name] = self.probes.get(name, 0) + int(n)

    def violation(self, klass, site, detail=None):
        v = Violation(klass, site, detail)
        for e in self.known:
            if finding_matches(e, v):
                self.known_hits[e["id"]] = self.known_hits.get(e["id"], 0) + 1
                return
        raise v


def run_one(mod, cfg, decisions, known, seed=None):
    """Execute one run.  Returns (record, violation_or_None)."""
    d = Decider(seed=seed, recorded=decisions)
    ctx = Ctx(d, known)
    t0 = time.time()
    try:
        out = mod.execute(cfg, ctx)
        viol = None
    except Violation as v:
        out = {}
        viol = v
    rec = {
        "digest": out.get("digest"),
        "nontrivial": bool(out.get("nontrivial", True)),
        "state_keys": out.get("state_keys", []),
        "sched_key": out.get("sched_key"),
        "sim_steps": out.get("sim_steps", 0),
        "sim_time": out.get("sim_time", 0.0),
        "sample": out.get("sample"),
        "stats": ctx.stats,
        "probes": ctx.probes,
        "known_hits": ctx.known_hits,
        "wall_s": time.time() - t0,
        "n_decisions": len(d.trace),
    }
    return rec, viol, d.trace


def same_violation(a: Violation, b: Violation):
    return a is not None and b is not None and a.klass == b.klass and a.site == b.site


def shrink(mod, cfg, decisions, viol, known, budget_s=120.0, max_tries=400):
    """Greedy delta debugging over the check's own candidate generator, keeping only
    candidates that fail with the same violation class at the same site."""
    t0 = time.time()
    tries = 0
    improved = True
    best = (cfg, list(decisions), viol)
    while improved and time.time() - t0 < budget_s and tries < max_tries:
        improved = False
        for c_cfg, c_dec in mod.shrink_candidates(best[0], best[1]):
            if time.time() - t0 > budget_s or tries >= max_tries:
                break
            tries += 1
            try:
                _, v, trace = run_one(mod, c_cfg, c_dec, known)
            except Exception:  # noqa: BLE001 - a candidate that breaks the harness is just not kept
                continue
            if same_violation(v, best[2]):
                best = (c_cfg, list(trace), v)
                improved = True
                break
    return best + (tries,)


def write_replay(pid, mod, cfg, decisions, viol, seed, index, shrunk_from=None, tries=0):
    os.makedirs(REPLAY_DIR, exist_ok=True)
    path = os.path.join(REPLAY_DIR, f"{pid}-{seed}.json")
    doc = {
        "property": pid,
        "check": mod.NAME,
        "seed": seed,
        "run_index": index,
        "cfg": jsonable(cfg),
        "decisions": jsonable(decisions),
        "violation": viol.to_json(),
        "shrink": {"tries": tries, "from": shrunk_from},
        "how_to_replay": f"/venv/bin/python /verif/check.py {pid} --replay {path}",
    }
    with open(path, "w") as f:
        json.dump(doc, f, indent=1, sort_keys=True)
    return path


# --------------------------------------------------------------------------- worker


def assign(mod, base_seed, tier, n_workers):
    """Deterministic assignment of run indices to workers, grouped by compiled program."""
    n_runs = mod.TIERS[tier]["runs"]
    groups = {}
    fast = getattr(mod, "group_of_index", None)  # cheap path: group without building the whole cfg
    for i in range(n_runs):
        if fast is not None:
            g = fast(derive_seed(base_seed, mod.ID, i), i, tier)
        else:
            g = mod.group_of(mod.gen_cfg(derive_seed(base_seed, mod.ID, i), i, tier))
        groups.setdefault(g, []).append(i)
    per = [[] for _ in range(n_workers)]
    load = [0] * n_workers
    # big groups first, each to the least loaded worker; groups larger than a fair share are split
    fair = max(1, -(-n_runs // n_workers))
    chunks = []
    for g in sorted(groups, key=lambda g: (-len(groups[g]), g)):
        idx = groups[g]
        for k in range(0, len(idx), fair):
            chunks.append(idx[k : k + fair])
    for ch in sorted(chunks, key=lambda c: (-len(c), c[0])):
        w = min(range(n_workers), key=lambda j: (load[j], j))
        per[w].extend(ch)
        load[w] += len(ch)
    return per


def _memory_maps():
    try:
        with open("/proc/self/maps") as f:
            return sum(1 for _ in f)
    except OSError:
        return 0


def release_compiled_programs():
    """Drop compiled XLA programs and our own jit wrappers (thorough tiers walk through
    hundreds of compiled menu entries; keeping them all exhausts memory)."""
    import gc

    import jax

    from . import lab
    from .models import replay

    replay._JIT.clear()
    for name in ("lockstep",):
        m = sys.modules.get(f"afqmcsim.checks.{name}")
        if m is not None and hasattr(m, "_MEAS"):
            m._MEAS.clear()
    jax.clear_caches()
    gc.collect()


def worker_main(pid, tier, base_seed, wid, n_workers, out_path):
    import faulthandler

    faulthandler.enable()
    import warnings

    warnings.filterwarnings("ignore", category=RuntimeWarning)
    env.init_jax()
    mod = load_check(pid)
    known = load_known_findings(pid)
    per = assign(mod, base_seed, tier, n_workers)
    mine = per[wid]
    n_re = mod.TIERS[tier].get("recheck", 2)
    other = per[(wid + 1) % n_workers] if n_workers > 1 else per[wid]
    rechecks = other[:n_re]
    budget = mod.TIERS[tier]["budget_s"]
    order = [(i, False) for i in mine[:2]] + [(i, True) for i in rechecks] + [(i, False) for i in mine[2:]]
    t0 = time.time()
    skipped = 0
    with open(out_path, "w") as out:

        def emit(obj):
            out.write(json.dumps(jsonable(obj)) + "\n")
            out.flush()

        emit({"type": "start", "wid": wid, "n_assigned": len(mine)})
        last_group = None
        for i, is_recheck in order:
            if time.time() - t0 > budget:
                skipped += 1
                continue
            seed = derive_seed(base_seed, mod.ID, i)
            cfg = mod.gen_cfg(seed, i, tier)
            g = mod.group_of(cfg)
            if (last_group is not None and g != last_group) or _memory_maps() > 12000:
                # a worker holds the programs of one menu entry at a time; inside an entry, programs
                # compiled from per-run closures pile up as memory mappings (LLVM JIT code) - release
                # them long before the kernel's per-process mapping limit (65530) is reached
                release_compiled_programs()
            last_group = g
            faulthandler.dump_traceback_later(mod.TIERS[tier].get("run_timeout_s", 600), exit=True)
            try:
                rec, viol, trace = run_one(mod, cfg, None, known, seed=seed)
            except Exception as e:  # noqa: BLE001
                emit(
                    {
                        "type": "harness_error",
                        "index": i,
                        "seed": seed,
                        "error": repr(e),
                        "traceback": traceback.format_exc()[-4000:],
                        "cfg": cfg,
                    }
                )
                continue
            finally:
                faulthandler.cancel_dump_traceback_later()
            rec.update({"type": "recheck" if is_recheck else "run", "index": i, "seed": seed, "group": mod.group_of(cfg)})
            if viol is None:
                emit(rec)
                continue
            # violation: minimise here (everything is compiled in this process)
            faulthandler.dump_traceback_later(1800, exit=True)
            try:
                s_cfg, s_dec, s_viol, tries = shrink(
                    mod, cfg, trace, viol, known, budget_s=mod.TIERS[tier].get("shrink_s", 90.0)
                )
            finally:
                faulthandler.cancel_dump_traceback_later()
            path = write_replay(
                pid, mod, s_cfg, s_dec, s_viol, seed, i,
                shrunk_from={"n_decisions": len(trace), "cfg_size": len(canon(cfg))}, tries=tries,
            )
            rec.update({"type": "violation", "violation": s_viol.to_json(), "replay": path})
            emit(rec)
            break  # one violation per worker is enough; the parent reports it
        emit({"type": "end", "wid": wid, "skipped_for_time": skipped, "wall_s": time.time() - t0})


# --------------------------------------------------------------------------- parent


def replay_main(pid, path, quiet=False):
    env.init_jax()
    mod = load_check(pid)
    with open(path) as f:
        doc = json.load(f)
    known = load_known_findings(pid)
    rec, viol, trace = run_one(mod, doc["cfg"], doc["decisions"], known)
    want = doc["violation"]
    if viol is None:
        print(f"REPLAY property={pid} result=no-violation expected={want['klass']}@{want['site']}")
        return 0
    same = viol.klass == want["klass"] and viol.site == want["site"]
    print(
        f"REPLAY property={pid} result=violation klass={viol.klass} site={viol.site} "
        f"same_as_recorded={same}"
    )
    if not quiet:
        print(json.dumps(viol.to_json(), indent=1)[:3000])
    print(f"VIOLATION property={pid} replay={path}")
    return 1


def digest_main(pid, path):
    """Execute one (cfg, decisions) pair and print its digest (used for the
    fresh-interpreter / other-hash-seed reproducibility probes)."""
    import warnings

    warnings.filterwarnings("ignore", category=RuntimeWarning)
    env.init_jax()
    mod = load_check(pid)
    with open(path) as f:
        doc = json.load(f)
    rec, viol, _ = run_one(mod, doc["cfg"], doc["decisions"], load_known_findings(pid))
    print(f"DIGEST {rec['digest']} violation={viol.klass if viol else None}")
    return 0


def verify_replay(pid, path):
    """Re-execute a replay file in a fresh interpreter; it must fail the same way."""
    cmd = [sys.executable, os.path.join(env.VERIF_ROOT, "check.py"), pid, "--replay", path, "--quiet"]
    try:
        p = subprocess.run(cmd, env=env.child_env(), capture_output=True, text=True, timeout=900)
    except subprocess.TimeoutExpired:
        return False
    return p.returncode == 1 and "same_as_recorded=True" in p.stdout


def parent_main(pid, tier, base_seed):
    t0 = time.time()
    mod = load_check(pid)  # cheap: check modules import jax lazily
    n_workers = int(os.environ.get("VERIF_WORKERS", "0")) or min(16, os.cpu_count() or 1)
    n_workers = max(1, min(n_workers, mod.TIERS[tier]["runs"]))
    scratch = env.make_scratch(f"afqmcsim-{pid}-")
    # the shared compilation cache goes to disk, not to the RAM-backed scratch root
    import tempfile

    cache = tempfile.mkdtemp(prefix=f"afqmcsim-jaxcache-{pid}-", dir=os.environ.get("TMPDIR") or "/tmp")
    procs = []
    try:
        for w in range(n_workers):
            outp = os.path.join(scratch, f"w{w}.jsonl")
            logp = os.path.join(scratch, f"w{w}.log")
            cmd = [
                sys.executable, os.path.join(env.VERIF_ROOT, "check.py"), pid,
                "--tier", tier, "--seed", str(base_seed),
                "--worker", f"{w}/{n_workers}", "--out", outp,
            ]
            lf = open(logp, "w")
            p = subprocess.Popen(cmd, env=env.child_env({"AFQMCSIM_JAX_CACHE": cache}), stdout=lf, stderr=subprocess.STDOUT)
            procs.append((w, p, outp, logp, lf))
        hard = mod.TIERS[tier]["budget_s"] * 3 + 900
        records, harness_errors = [], []
        for w, p, outp, logp, lf in procs:
            try:
                rc = p.wait(timeout=max(30, hard - (time.time() - t0)))
            except subprocess.TimeoutExpired:
                p.kill()
                rc = -9
            lf.close()
            ended = False
            if os.path.exists(outp):
                with open(outp) as f:
                    for line in f:
                        try:
                            r = json.loads(line)
                        except json.JSONDecodeError:
                            continue
                        if r["type"] == "end":
                            ended = True
                        records.append(r)
            if rc != 0 or not ended:
                with open(logp) as f:
                    tail = f.read()[-3000:]
                harness_errors.append({"worker": w, "rc": rc, "log_tail": tail})
        return finish(pid, mod, tier, base_seed, records, harness_errors, n_workers, t0)
    finally:
        for _, p, *_ in procs:
            if p.poll() is None:
                p.kill()
        import shutil

        shutil.rmtree(scratch, ignore_errors=True)
        shutil.rmtree(cache, ignore_errors=True)


def finish(pid, mod, tier, base_seed, records, harness_errors, n_workers, t0):
    runs = [r for r in records if r["type"] == "run"]
    rechecks = [r for r in records if r["type"] == "recheck"]
    viols = [r for r in records if r["type"] == "violation"]
    herrs = [r for r in records if r["type"] == "harness_error"]
    ends = [r for r in records if r["type"] == "end"]
    by_index = {r["index"]: r for r in runs + viols}
    # determinism cross-check: same run executed by two different worker processes
    det_checked = det_bad = 0
    for r in rechecks:
        o = by_index.get(r["index"])
        if o is None or o.get("digest") is None or r.get("digest") is None:
            continue
        det_checked += 1
        if o["digest"] != r["digest"]:
            det_bad += 1
            harness_errors.append({"nondeterminism": r["index"], "a": o["digest"], "b": r["digest"]})
    stats, probes, known_hits = {}, {}, {}
    for r in runs + viols:
        for k, v in (r.get("stats") or {}).items():
            stats[k] = stats.get(k, 0) + v
        for k, v in (r.get("probes") or {}).items():
            probes[k] = probes.get(k, 0) + v
        for k, v in (r.get("known_hits") or {}).items():
            known_hits[k] = known_hits.get(k, 0) + v
    digests = {r["digest"] for r in runs if r.get("nontrivial") and r.get("digest")}
    state_keys = set()
    sched_keys = set()
    for r in runs:
        state_keys.update(r.get("state_keys") or [])
        if r.get("sched_key"):
            sched_keys.add(r["sched_key"])
    wall = time.time() - t0
    n_eval = len(runs) + len(viols)
    missing_probes = [p for p in getattr(mod, "REQUIRED_PROBES", {}).get(tier, []) if not probes.get(p)]
    skipped = sum(e.get("skipped_for_time", 0) for e in ends)
    samples = [r["sample"] for r in sorted(runs, key=lambda r: r["index"]) if r.get("sample")][:3]
    if not samples:
        samples = [{"note": "no completed run produced a sample"}]
    exit_code = 0
    lines = []
    for e in load_known_findings(pid):
        lines.append(
            f"KNOWN-FINDING: property={pid} {e['id']}: {e['what_fails']} (reproduced {known_hits.get(e['id'], 0)}x in this run)"
        )
    seen_replays = set()
    for v in sorted(viols, key=lambda r: r["index"]):
        if v["replay"] in seen_replays:
            continue
        seen_replays.add(v["replay"])
        if len(seen_replays) > 6:
            continue
        verified = verify_replay(pid, v["replay"]) if len(seen_replays) <= 2 else "not-run"
        lines.append(f"VIOLATION property={pid} replay={v['replay']}")
        lines.append(f"  replay_reproduces_in_fresh_process={verified} run_index={v['index']} seed={v['seed']}")
        lines.append("  " + json.dumps(v["violation"])[:1500])
        if verified is False:
            harness_errors.append({"replay_not_reproducible": v["replay"]})
        exit_code = 1
    if exit_code == 0 and (harness_errors or herrs or missing_probes or n_eval == 0):
        exit_code = 2
    for h in harness_errors[:5]:
        lines.append("HARNESS-ERROR " + json.dumps(h)[:3000])
    for h in herrs[:5]:
        lines.append("HARNESS-ERROR run %s: %s\n%s" % (h["index"], h["error"], h["traceback"]))
    if missing_probes:
        lines.append(f"HARNESS-ERROR reach probes never fired: {missing_probes}")
    evidence = {
        "property_id": pid,
        "tier": tier,
        "seed": int(base_seed),
        "level": "exploration",
        "coverage": {
            "evaluations": n_eval,
            "distinct_nontrivial": len(digests),
            "rule": mod.RULE,
            "samples": samples,
            "runs_per_hour": round(n_eval / max(wall, 1e-9) * 3600.0, 1),
            "seeds": {"base": int(base_seed), "derivation": "sha256(base|property|run index)", "run_indices": [0, mod.TIERS[tier]["runs"] - 1]},
            "runs_planned": mod.TIERS[tier]["runs"],
            "runs_skipped_for_time_budget": skipped,
            "simulated_steps": sum(r.get("sim_steps", 0) for r in runs),
            "simulated_time": round(sum(r.get("sim_time", 0.0) for r in runs), 6),
            "decisions_taken": sum(r.get("n_decisions", 0) for r in runs),
            "fault_and_event_counts": stats,
            "reach_probes": probes,
            "distinct_schedules": len(sched_keys),
            "distinct_abstract_states": len(state_keys),
            "determinism_crosscheck": {"runs_executed_twice_in_different_processes": det_checked, "digest_mismatches": det_bad},
            "components": mod.COMPONENTS,
            "workers": n_workers,
            "known_findings_hit": known_hits,
            "harness_errors": len(harness_errors) + len(herrs),
        },
        "assumptions": mod.ASSUMPTIONS,
        "wall_s": round(wall, 2),
        "violations": len(viols),
    }
    os.makedirs(EVIDENCE_DIR, exist_ok=True)
    with open(os.path.join(EVIDENCE_DIR, f"{pid}.json"), "w") as f:
        json.dump(jsonable(evidence), f, indent=1, sort_keys=True)
    print(
        f"{pid} {mod.NAME} tier={tier} seed={base_seed}: runs={n_eval} distinct={len(digests)} "
        f"violations={len(viols)} known_hits={sum(known_hits.values())} harness_errors={len(harness_errors) + len(herrs)} "
        f"skipped={skipped} wall={wall:.1f}s"
    )
    for ln in lines:
        print(ln)
    return exit_code
