#!/venv/bin/python
"""Single entry point of the afqmcsim checks.

    check.py <PROPERTY> [--tier quick|thorough] [--seed N] [--replay FILE]

Exit 0: property held on everything explored (KNOWN-FINDING lines allowed)
Exit 1: violation found (a line `VIOLATION property=<id> replay=<path>` is printed)
Exit 2: the harness itself failed (never reported as success)
"""
import argparse
import os
import subprocess
import sys

HERE = os.path.dirname(os.path.abspath(__file__))
if HERE not in sys.path:
    sys.path.insert(0, HERE)

from afqmcsim import env  # noqa: E402


def main():
    ap = argparse.ArgumentParser()
    ap.add_argument("property")
    ap.add_argument("--tier", default=os.environ.get("VERIF_TIER", "quick"), choices=["quick", "thorough"])
    ap.add_argument("--seed", type=int, default=None)
    ap.add_argument("--replay", default=None)
    ap.add_argument("--worker", default=None, help=argparse.SUPPRESS)
    ap.add_argument("--out", default=None, help=argparse.SUPPRESS)
    ap.add_argument("--quiet", action="store_true")
    ap.add_argument("--digest-of", default=None, help=argparse.SUPPRESS)
    args = ap.parse_args()
    seed = args.seed
    if seed is None:
        try:
            seed = int(os.environ.get("VERIF_SEED", "0"))
        except ValueError:
            seed = 0

    if os.environ.get("AFQMCSIM_CHILD") != "1":
        # re-exec with the pinned environment (hash seed, threads, PYTHONPATH = working tree)
        cmd = [sys.executable, os.path.abspath(__file__)] + sys.argv[1:]
        if args.seed is None:
            cmd += ["--seed", str(seed)]
        return subprocess.call(cmd, env=env.child_env())

    from afqmcsim import runner

    try:
        if args.worker is not None:
            wid, n = args.worker.split("/")
            runner.worker_main(args.property, args.tier, seed, int(wid), int(n), args.out)
            return 0
        if args.digest_of is not None:
            return runner.digest_main(args.property, args.digest_of)
        if args.replay is not None:
            return runner.replay_main(args.property, args.replay, quiet=args.quiet)
        return runner.parent_main(args.property, args.tier, seed)
    except Exception as e:  # noqa: BLE001
        import traceback

        traceback.print_exc()
        print(f"HARNESS-ERROR {type(e).__name__}: {e}")
        return 2


if __name__ == "__main__":
    sys.exit(main())
