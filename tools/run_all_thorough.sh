#!/bin/bash
# runs every registered thorough check (code of the directory this script lives in - a `vp run` snapshot or /verif -
# against /repo's working tree), one after the other; log to $1 (default /verif/thorough.log)
HERE="$(cd "$(dirname "$0")/.." && pwd)"
LOG="${1:-/verif/thorough.log}"; SEED="${2:-0}"
: > "$LOG"
for id in $(python3 -c "import json;print(' '.join(c['property_id'] for c in json.load(open('$HERE/MANIFEST.json'))['checks']))"); do
  VERIF_EVIDENCE_DIR="${THOROUGH_EVIDENCE_DIR:-/verif/evidence_thorough}" /venv/bin/python "$HERE/check.py" $id --tier thorough --seed $SEED 2>&1 | cut -c1-1500 >> "$LOG"
  echo "  -> exit ${PIPESTATUS[0]} for $id thorough" >> "$LOG"
done
