#!/bin/bash
# usage: tools/eval_seeded.sh <dir-with-patch.diff+demo.py> <PROPERTY> [more PROPERTY ids...]
# Confirms a seeded change in a scratch copy of /repo (outside /repo and /verif): demo passes without / fails with the
# patch, the repository's test suite still passes with it; then runs the quick checks of the given properties against it.
set -u
SRC="$(readlink -f "$1")"; shift
S="$(mktemp -d /tmp/afqmc-seeded-XXXXXX)"; trap 'rm -rf "$S"' EXIT
rsync -a --exclude .git --exclude __pycache__ --exclude _seeded /repo/ "$S/repo/"
mkdir -p "$S/repo/_seeded/X"; cp "$SRC/demo.py" "$S/repo/_seeded/X/demo.py"
cd "$S/repo"
PYTHONPATH="$S/repo" timeout 900 /venv/bin/python _seeded/X/demo.py > "$S/demo0.log" 2>&1; d0=$?
if ! patch -p1 --quiet < "$SRC/patch.diff"; then echo "SEEDED patch does not apply"; exit 3; fi
PYTHONPATH="$S/repo" timeout 900 /venv/bin/python _seeded/X/demo.py > "$S/demo1.log" 2>&1; d1=$?
if [ "${SKIP_TESTS:-0}" = "1" ]; then t="skipped"; else t=$(timeout 1800 /venv/bin/python -m pytest -q -p no:cacheprovider --timeout=900 tests 2>&1 | tail -1); fi
echo "SEEDED $(basename $(dirname $SRC))/$(basename $SRC): demo_unpatched_exit=$d0 demo_patched_exit=$d1 tests_with_patch='$t'"
tail -2 "$S/demo1.log" | cut -c1-200
for PID in "$@"; do
  out=$(VERIF_REPO="$S/repo" VERIF_EVIDENCE_DIR="$S/evidence" timeout 1800 /venv/bin/python /verif/check.py "$PID" --tier "${TIER:-quick}" 2>&1); rc=$?
  first=$(echo "$out" | grep -A2 '^VIOLATION' | grep -o '"klass": "[^"]*", "site": "[^"]*"' | head -1)
  echo "  check $PID rc=$rc $first"
done
