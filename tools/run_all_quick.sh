#!/bin/bash
# runs every registered quick check on /repo's working tree (regenerates all evidence files)
cd /verif
rc_all=0
for id in $(python3 -c "import json;print(' '.join(c['property_id'] for c in json.load(open('/verif/MANIFEST.json'))['checks']))"); do
  /venv/bin/python /verif/check.py $id --tier quick ${1:+--seed $1} | cut -c1-600
  rc=${PIPESTATUS[0]}; [ $rc -ne 0 ] && rc_all=1 && echo "  -> exit $rc for $id"
done
exit $rc_all
