#!/bin/bash
# usage: tools/mk_mutant.sh <name> <file-relative-to-repo> <sed-expression>
# Writes /verif/mutants/<name>.patch = diff of applying the sed expression to the file in a scratch copy.
set -eu
NAME="$1"; FILE="$2"; EXPR="$3"
S="$(mktemp -d /tmp/afqmc-mk-XXXXXX)"; trap 'rm -rf "$S"' EXIT
mkdir -p "$S/a/$(dirname "$FILE")" "$S/b/$(dirname "$FILE")"
cp "/repo/$FILE" "$S/a/$FILE"; cp "/repo/$FILE" "$S/b/$FILE"
sed -i -E "$EXPR" "$S/b/$FILE"
if diff -q "$S/a/$FILE" "$S/b/$FILE" >/dev/null; then echo "mk_mutant: no change for $NAME"; exit 1; fi
(cd "$S" && diff -u "a/$FILE" "b/$FILE" > "/verif/mutants/$NAME.patch" || true)
echo "wrote mutants/$NAME.patch"; grep -E '^[-+][^-+]' "/verif/mutants/$NAME.patch" | head -6
