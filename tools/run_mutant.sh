#!/bin/bash
# usage: tools/run_mutant.sh <patch-file> <PROPERTY> [tier]
# Applies a patch to a scratch copy of /repo (outside /repo and /verif), runs the
# property's check against the copy (VERIF_REPO), prints the result and removes the copy.
set -u
PATCH="$(readlink -f "$1")"; PID="$2"; TIER="${3:-quick}"
SCRATCH="$(mktemp -d /tmp/afqmc-mutant-XXXXXX)"
trap 'rm -rf "$SCRATCH"' EXIT
rsync -a --exclude .git --exclude __pycache__ /repo/ "$SCRATCH/repo/"
if ! (cd "$SCRATCH/repo" && patch -p1 --quiet < "$PATCH"); then
  echo "MUTANT-ERROR patch does not apply: $PATCH"; exit 3
fi
VERIF_REPO="$SCRATCH/repo" VERIF_EVIDENCE_DIR="$SCRATCH/evidence" timeout "${MUTANT_TIMEOUT:-1800}" /venv/bin/python /verif/check.py "$PID" --tier "$TIER"
rc=$?
echo "MUTANT-RESULT patch=$(basename "$PATCH") property=$PID rc=$rc"
exit $rc
