#!/usr/bin/env python3
"""Regenerates /verif/MANIFEST.json from the tables below and validates it (and any
evidence files present) against the schemas in /root/.vp when jsonschema is available
(python3-vt).  Run: python3-vt tools/gen_manifest.py"""
import glob
import json
import os
import sys

HERE = os.path.dirname(os.path.dirname(os.path.abspath(__file__)))
PY = "/venv/bin/python"

CLAIMED = {
    "C07": dict(
        name="sr_world",
        technique="deterministic simulation: R ranks as baton-passing threads on a simulated MPI communicator, seeded schedule/eager-vs-rendezvous search, serial reference comb as oracle, exact integration over comb-offset breakpoints",
        text=(
            "Seeded exploration (not proof) of the real sr.* and propagator.stochastic_reconfiguration_* code: every run is a world of "
            "1-4 simulated ranks performing 1-4 reconfigurations without barriers under a PRNG-chosen interleaving and eager/rendezvous "
            "completion pattern; each output population is compared with an independent serial comb on the rank-ordered population "
            "(copies only, spin blocks paired, uniform weights, conservation, floor/ceil counts, exact index equality away from "
            "breakpoints), the jitted/NumPy/not_a_comm/propagator-local routes are run on the same population, and the mean over the "
            "offset is integrated exactly over its breakpoints through the real routine. Right level: the multi-rank path has never run "
            "anywhere (no MPI here or in CI) and its truth depends on schedules and weight vectors, which sampling reaches and a proof "
            "of the Python/NumPy/JAX code does not."
        ),
        note="Trusts SimComm as a model of MPI collectives (written from the standard; no MPI library on this image), JAX/XLA, NumPy; populations <= 32 walkers, <= 4 ranks.",
        design_ref="DESIGN.md section 5, C07",
    ),
    "C08": dict(
        name="coherence",
        technique="deterministic simulation: in-loop monitor on every propagate entry of histories produced by the real sampler/driver (driver as an SPMD program on a simulated communicator under seeded schedules and field faults) + refinement of each sampler call against a step-by-step replay model",
        text=(
            "Seeded exploration of operation histories: the real sampler entry points (plain, and AD through jvp/vjp as the driver calls "
            "them) chained with the driver's QR + global reconfiguration glue, and complete driver.afqmc runs on 1-3 simulated ranks "
            "under PRNG-chosen interleavings, eager/rendezvous patterns, clock jumps and injected field tails. A harness subclass of the "
            "propagator records at every propagate entry, inside the compiled loops, max |cached - recomputed overlap| / |cached| over "
            "walkers that still carry weight (invariant: <= 1e-8; unchanged tree: exactly 0), and each sampler call is compared with a "
            "plain-Python replay through public single steps with explicit refreshes (energy, weights, walkers, overlaps, shift to 1e-9). "
            "Right level: the property is quantified over histories that only the sampler and driver can produce; a missing refresh "
            "changes numbers, never shapes, and only after a particular sequence of blocks."
        ),
        note="Trusts JAX/XLA, jax.random, and that the replay model's use of the public single-step API is the specification the property names; systems <= 4 orbitals, <= 8 walkers/rank, <= 3 ranks; menu of compiled configurations is sampled, not exhaustive.",
        design_ref="DESIGN.md section 5, C08",
    ),
    "C12": dict(
        name="sampler_matrix",
        technique="deterministic simulation: option-matrix cells executed through the real sampler entry points and complete driver.afqmc runs on a simulated communicator; same run repeated under different seeded schedules / eager-rendezvous patterns / clock-jump plans, on not_a_comm and in a fresh interpreter under another hash seed; replay model and estimator definition as oracles",
        text=(
            "Seeded exploration of the option matrix ad_mode x orbital_rotation x do_sr x walker_type x n_batch x block/step counts with a "
            "trial converged by an independent NumPy Hartree-Fock solver (stable under the library's plain Roothaan iteration; in part of the UHF cells a symmetry-broken solution with a spin-averaged, i.e. approximate, rdm1 input): (cross) plain vs each AD entry point called through jvp/vjp as the driver "
            "does, both against a step-by-step replay model and, for a single energy block, against the weight-averaged capped real "
            "local energy recomputed from the measured population; (batch) two batch counts; (driver) complete driver.afqmc runs on 1-3 "
            "simulated ranks executed twice under different PRNG-chosen schedules, eager/rendezvous patterns and clock-jump plans, on "
            "config.not_a_comm for one rank, and in a fresh interpreter with another PYTHONHASHSEED - samples_raw.dat bytes and returned "
            "energies must be identical. Any exception from an entry point or option combination is a violation (callable clause)."
        ),
        note="Trusts JAX/XLA determinism on single-threaded CPU, jax.random, the replay model; cells where the independent SCF does not converge to a solution that is stable under the plain Roothaan iteration are skipped and counted; 2rdm mode only in the driver cells (complete one in the thorough menu only).",
        design_ref="DESIGN.md section 5, C12",
    ),
    "C14": dict(
        name="lockstep",
        technique="deterministic simulation: three systems (restricted, unrestricted, permuted/re-batched copy) driven in lock-step by one seeded random stream through generated operation histories, sampler entry points and complete driver runs on a simulated communicator; per-operation comparison of the recorded histories",
        text=(
            "Seeded exploration: a restricted-walker system (RHF trial), an unrestricted-walker system with equal spin blocks (UHF trial, same "
            "orbitals) and a permuted / differently batched copy are driven by one random stream through generated histories of 8-30 "
            "operations (step, step with a field tail on one walker, QR, local reconfiguration, measurement of overlap/force bias/energy, "
            "permute, re-batch); after every operation weights, overlaps, walkers and the scalar shift of the three systems must agree "
            "(1e-8 across storage formats, 1e-10 under permutation / batch count, shift equal = symmetric function). The same pair is "
            "run through sampler entry points and complete driver.afqmc runs on 1-3 simulated ranks under independent schedules."
        ),
        note="Closed-shell, spin-independent Hamiltonians only (as the statement requires); local reconfiguration re-synchronises the permuted copy (order dependent by design); <= 8 walkers, 4 orbitals.",
        design_ref="DESIGN.md section 5, C14",
    ),
    "C09": dict(
        name="weights_invariants",
        technique="deterministic simulation with fault injection: seeded step/block histories for all seven propagators under hostile parameters with injected finite extreme field values (tails to 40 sigma, components to 1e300), invariants after every operation and, inside compiled sampler/driver loops on a simulated communicator, by a harness propagator after every step",
        text=(
            "Seeded exploration of long histories (20-80 operations: step, tail step, huge single field component, QR, local reconfiguration, "
            "real sampler block) for propagator_restricted, _unrestricted, _cpmc, _cpmc_slow, _cpmc_nn, _cpmc_nn_slow and _cpmc_continuous with "
            "dt from 1e-4 to 2, interaction scale 0.1-20, U 1-64 and poor trials; plus the real sampler entry points and complete driver runs "
            "on 1-3 simulated ranks with a field-fault table applied inside the compiled loops. Invariants after every operation: weights "
            "real, finite, >= 0, <= 100; phaseless step factor in {0} U [1e-3,100]; weight 0 stays 0 except across a reconfiguration; "
            "shift finite while total weight > 0; equal positive weights after a reconfiguration; killed fraction in [0,1]."
        ),
        note="Only finite field values are injected; populations start from finite non-zero overlaps (checked); CPMC has no documented per-step window, so only finiteness, sign, cap and dead-stays-dead are demanded there.",
        design_ref="DESIGN.md section 5, C09",
    ),
    "C04": dict(
        name="phaseless_step",
        technique="deterministic simulation in refinement form: seeded operation histories (steps with Gaussian / tail / huge fields, QR, local reconfiguration, scripted quadrature-node batches) through the real propagate, every step compared walker by walker with a Fock-space reference step model that is validated in the same run against expm(-dt(H-E)) by tensor Gauss-Hermite quadrature on a dt ladder",
        text=(
            "Seeded exploration, decided as refinement: (history) every step the real propagate takes along generated histories - incl. injected "
            "field tails and huge components, after QR and local reconfigurations - equals, per walker, the step of an independent NumPy/Fock-space "
            "model (new walker matrix, new cached overlap, applied weight |I| max(0,cos theta) with the NaN/window rules, shift update), and the "
            "code's own intermediates (mean-field shifts, constant, half-step one-body propagator) equal the model's; (ladder) the field average "
            "itself is evaluated on the CODE's outputs - importance function rebuilt from the code's force bias, constants, new walker and overlap, "
            "tied to the applied weight - equals the model's average to 1e-8 and its residual against expm(-dt(H-E_shift)) shrinks >= 3x per "
            "halving at the fine end of the ladder whenever the model's does. The model is validated the same way in every run."
        ),
        note="Trusts NumPy/SciPy expm and the 150-line Fock engine; trials rhf/uhf (also with a complex phase convention of their orbitals), ghf/noci (real coefficients), hand-coded cisd/ucisd (state = bra extracted from their overlap routine, verified bilinear); <= 5 orbitals, <= 3 Cholesky matrices; a sampler kind composes model steps against one real sampler call; threshold-adjacent comparisons skipped (1e-7 guard band) and counted.",
        design_ref="DESIGN.md section 5, C04",
    ),
    "C05": dict(
        name="free_step",
        technique="deterministic simulation in refinement form: histories of 1-20 real propagate_free steps (with field faults), sampler.propagate_free and driver.fp_afqmc on a simulated communicator replayed through an un-normalised Fock-space model under the same jax.random stream; quadrature average of the code's (norm x walker) on a dt ladder",
        text=(
            "Seeded exploration: after every real free-projection step (public step, sampler trajectory, pickled driver trajectories of every simulated "
            "rank) accumulated norm x orthonormal walker equals the model's un-normalised product of propagators as Fock vectors, stored overlap = "
            "overlap of that state, normed overlap = overlap of the orthonormal walker, columns orthonormal, local energy and force bias unchanged "
            "by the in-step QR; block energy/weight recomputed from the returned trajectory; the Gauss-Hermite average of the code's norm x walker "
            "equals the model's average (1e-8) and converges to expm(-dt(H-ene0)) at >= 3x per halving when the model does; the Taylor remainder "
            "bound is asserted on the model's truncated exponential."
        ),
        note="Tolerance follows the conditioning of the un-normalised matrix after an injected huge field (cond > 1e5: walker no longer refined, counted); unrestricted propagator only (free projection is not implemented for the restricted one).",
        design_ref="DESIGN.md section 5, C05",
    ),
    "C10": dict(
        name="cpmc_step",
        technique="deterministic simulation with the auxiliary-field choices under simulator control: uniform numbers scripted (random, forcing each of the 2^n configurations, or placed beside a branch probability) through the public gaussian_rns argument; fast and slow propagators in lock-step with a Fock-space CPMC model; exhaustive configuration sum through the real step; cache-coherence monitor",
        text=(
            "Seeded exploration with scripted field choices: (walk) propagator_cpmc and propagator_cpmc_slow driven by the same numbers in lock-step "
            "with a reference CPMC model whose one-body factor is exp(-dt K/2) of the lattice hopping matrix itself - walkers, weights, overlaps per "
            "step and walker, cached Green's functions/overlaps equal from-scratch values, uniform numbers 1e-6 beside the predicted branch probability; "
            "(exhaustive) all 2^n configurations forced through the real step: sum_x P(x) w'(x) |phi'(x)>/ov'(x) equals "
            "e^{dt E} e^{-dt K/2} prod_i e^{-dt U n_up n_dn} e^{-dt K/2}|phi>/ov to 1e-9 whenever no constraint fires (the model is validated the same "
            "way first); (pairs) every ordered pair of spin-orbitals x random update constants, fast ratio/update vs from scratch, UHF and GHF; "
            "(nn) neighbour-interaction propagators fast vs slow under one key."
        ),
        note="Branch probabilities inside the exhaustive sum come from the model (the code does not expose them) and are tied to the code by the near-branch walk runs; lattices <= 4 sites; real walkers/trials.",
        design_ref="DESIGN.md section 5, C10",
    ),
    "C11": dict(
        name="zero_variance",
        technique="deterministic simulation: complete driver.afqmc runs with the exact eigenvector as multi-Slater trial on a simulated communicator under seeded schedules and injected field tails, an in-loop monitor of |E_local - E0| at every step; determinant lists assembled through the real interface (state dict, dets.bin written by an independent writer, pyscf FCI) and compared with a Fock-space engine",
        text=(
            "Seeded exploration: (lists) random CI vectors and exact eigenvectors over <= 4 orbitals (open and closed shell) become determinant lists "
            "with random order, random reference determinant and random admissible excitation cut-off through get_excitations(state=...), through a "
            "dets.bin file written by an independent writer and read by the real read_dets, and through pyscf's FCI solver + get_fci_state; the library "
            "overlap of random complex walkers (unrestricted and, for closed-shell sectors, restricted entry point) equals sum_i c_i <D_i|phi> from the Fock engine, force bias and "
            "local energy equal the mixed estimators of the listed state and, for an eigenvector, every local energy equals the "
            "eigenvalue. (driver) complete driver.afqmc runs with the exact trial on 1-3 simulated ranks, restricted and unrestricted walkers, PRNG-chosen "
            "schedules and injected field tails: a harness propagator records max |E_local - E0| over live walkers at every propagate entry inside the "
            "compiled loops, and every row of samples_raw.dat with non-zero weight and the returned energy equal E0."
        ),
        note="Fock engine ground energy is cross-checked against pyscf FCI in the pyscf-route runs; full determinant lists only (compiled shapes independent of the reference); in half of the dictionary-route runs the same dictionary has been assembled once before (the trial comes from the second assembly); restricted walkers with any reference determinant of a closed-shell sector; blocks with extinct population (weight 0) have no energy and are counted, not compared.",
        design_ref="DESIGN.md section 5, C11",
    ),
}

NOT_APPLICABLE = {
    "C01": "pure function of (trial parameters, one walker matrix): no schedule, history, random stream or fault in the statement; simulation could only generate inputs (DESIGN.md section 6)",
    "C02": "pure function of (Hamiltonian, trial, walker); no schedule, history, stream or fault to simulate (DESIGN.md section 6)",
    "C03": "pure function of (Cholesky vectors, trial, walker); no schedule, history, stream or fault to simulate (DESIGN.md section 6)",
    "C06": "calculus identity between derivatives of one deterministic function; the only simulation-shaped clause (AD primal equals plain sampler) is covered under C12 (DESIGN.md section 6)",
    "C13": "QR invariance and initial-walker construction are pure functions of their input batch (DESIGN.md section 6)",
    "C15": "algebraic covariance identity of pure functions (DESIGN.md section 6)",
    "C16": "deterministic prep->files->set-up round trip whose heavy lifting (pyscf SCF/CC) is outside any simulator; statement has no crash, concurrency or fault (DESIGN.md section 6)",
    "C17": "Cholesky routines are pure functions of a matrix (DESIGN.md section 6)",
    "C18": "SCF optimisation and the eigen-derivative rule are pure functions (DESIGN.md section 6)",
    "C19": "blocking, outlier rejection and jackknife are pure functions of a sample series (DESIGN.md section 6)",
    "C20": "lattice construction and pytree round trips are pure functions (DESIGN.md section 6)",
}

# properties planned as simulation targets whose check is not built yet
PENDING = {}


def build():
    checks = []
    for pid in sorted(CLAIMED):
        c = CLAIMED[pid]
        checks.append(
            {
                "property_id": pid,
                "quick_cmd": f"{PY} /verif/check.py {pid} --tier quick",
                "thorough_cmd": f"{PY} /verif/check.py {pid} --tier thorough",
                "evidence_file": f"/verif/evidence/{pid}.json",
                "replay_cmd_template": f"{PY} /verif/check.py {pid} --replay {{path}}",
                "engine": "afqmcsim",
                "level_claimed": {"category": "exploration", "text": c["text"], "design_ref": c["design_ref"]},
                "level_note": c["note"],
                "technique": c["technique"],
            }
        )
    na = [{"property_id": k, "reason": v} for k, v in sorted({**NOT_APPLICABLE, **PENDING}.items())]
    return {
        "version": 1,
        "setup_cmd": f"{PY} /verif/tools/setup_check.py",
        "hooks": {
            "guard": "ANKIT76_AD_AFQMC_VERIF",
            "enable": "no source hook exists: checks run /repo's working tree unmodified (PYTHONPATH=/repo) and reach it through existing seams (injected MPI/comm objects, fields/zeta/gaussian_rns arguments, harness subclasses of the propagator, module attributes driver.time/print); the guard variable is exported by check.py for completeness",
            "baseline_off_cmd": "cd /repo && env -u ANKIT76_AD_AFQMC_VERIF /venv/bin/python -m pytest -ra -q -p no:cacheprovider --timeout=900 --continue-on-collection-errors",
            "source_commits": [],
            "add_only": True,
        },
        "engines": [
            {
                "name": "afqmcsim",
                "path": "/verif/afqmcsim",
                "serves_properties": sorted(CLAIMED),
                "kind_free_text": "deterministic simulator with fault injection written for this repository: seeded Decider (one integer decides a run), SimWorld (ranks as baton-passing threads), SimComm (MPI collectives with eager/rendezvous freedom), harness propagators (monitors and field-fault overlay inside the compiled loops), reference models (Fock-space engine, serial comb, step replay), delta-debugging shrinker, replay files",
            }
        ],
        "checks": checks,
        "not_applicable": na,
        "notes": "Known findings: /verif/known_findings.json. Seeded changes used to test the checks: /verif/seeded/. Sensitivity: /verif/SENSITIVITY.md and DESIGN.md section 12.",
    }


def main():
    m = build()
    path = os.path.join(HERE, "MANIFEST.json")
    with open(path, "w") as f:
        json.dump(m, f, indent=1)
        f.write("\n")
    try:
        import jsonschema
    except ImportError:
        print("MANIFEST.json written (jsonschema not available here: not validated)")
        return 0
    jsonschema.validate(m, json.load(open("/root/.vp/MANIFEST.schema.json")))
    print("MANIFEST.json valid:", len(m["checks"]), "checks,", len(m["not_applicable"]), "not applicable")
    es = json.load(open("/root/.vp/EVIDENCE.schema.json"))
    for ev in sorted(glob.glob(os.path.join(HERE, "evidence", "*.json"))):
        jsonschema.validate(json.load(open(ev)), es)
        print("evidence valid:", os.path.basename(ev))
    ids = {json.loads(l)["id"] for l in open(os.path.join(HERE, "properties.jsonl"))}
    covered = {c["property_id"] for c in m["checks"]} | {n["property_id"] for n in m["not_applicable"]}
    if ids != covered:
        print("WARNING: properties neither claimed nor not_applicable:", sorted(ids - covered), "unknown:", sorted(covered - ids))
        return 1
    return 0


if __name__ == "__main__":
    sys.exit(main())
