#!/usr/bin/env python3
# store.py <PID-R6X> "<summary>" "<needs>" [widened-note]
import json, os, re, subprocess, sys
sid, summary, needs = sys.argv[1], sys.argv[2], sys.argv[3]
widened = sys.argv[4] if len(sys.argv) > 4 else None
pid = sid.split("-")[0]
log = open(f"/tmp/r6/eval-{sid}.log").read()
m = re.search(r"demo_unpatched_exit=(\d+) demo_patched_exit=(\d+) tests_with_patch='([^']*)'", log)
d0, d1, tests = int(m.group(1)), int(m.group(2)), m.group(3)
assert d0 == 0 and d1 == 1 and tests.startswith("41 passed"), (sid, d0, d1, tests)
c = re.search(r"check (C\d+) rc=(\d+) ?(.*)", log)
rc = int(c.group(2))
k = re.search(r'"klass": "([^"]*)", "site": "([^"]*)"', c.group(3) or "")
first = f"{k.group(1)} @ {k.group(2)}" if k else ""
extra = {"summary": summary, "needs_to_manifest": needs,
         "what_i_ran": "tools/eval_seeded.sh in a scratch copy of /repo: demo exit 0 unpatched / exit 1 patched; pytest tests with patch: " + tests.split(",")[0] + "; then the quick check of the property with VERIF_REPO pointing at the patched copy",
         "round": 6, "confirmed": {"demo_unpatched_exit": d0, "demo_patched_exit": d1, "tests_with_patch": tests.split(",")[0]},
         "detected_by": {pid: first} if rc == 1 else {}, "quick_check_rc": rc}
if widened: extra["workload_widened"] = widened
subprocess.check_call(["python3", "/verif/tools/store_seeded.py", f"/tmp/r6/{sid}", sid, pid, json.dumps(extra)])
json.dump({"name": f"seeded/{sid}", "property": pid, "rc": rc, "first": first, "violating_runs": None, "wall_s": None, "via": "tools/eval_seeded.sh"},
          open(f"/verif/sensitivity/seeded__{sid}.json", "w"), indent=1)
print(sid, "rc", rc, first)
