#!/venv/bin/python
"""MANIFEST.setup_cmd: verify, offline, that everything the checks need is importable
from files on disk, and that the simulator replays (a short determinism self-test)."""
import os
import subprocess
import sys

HERE = os.path.dirname(os.path.dirname(os.path.abspath(__file__)))
sys.path.insert(0, HERE)
from afqmcsim import env  # noqa: E402

code = r"""
import sys
from afqmcsim import env, runner
from afqmcsim.core import derive_seed
env.init_jax()
import jax, numpy, scipy
mod = runner.load_check("C07")
bad = 0
for i in range(12):
    seed = derive_seed(7, "C07", i)
    cfg = mod.gen_cfg(seed, i, "quick")
    r1, v1, t1 = runner.run_one(mod, cfg, None, [], seed=seed)
    r2, v2, t2 = runner.run_one(mod, cfg, t1, [])
    if r1["digest"] != r2["digest"] or t1 != t2:
        bad += 1
print("setup: jax", jax.__version__, "numpy", numpy.__version__, "replay mismatches", bad)
sys.exit(1 if bad else 0)
"""
rc = subprocess.call([sys.executable, "-c", code], env=env.child_env(), cwd=HERE)
os.makedirs(os.path.join(HERE, "evidence"), exist_ok=True)
os.makedirs(os.path.join(HERE, "replays"), exist_ok=True)
print("setup_cmd", "ok" if rc == 0 else "FAILED")
sys.exit(rc)
