#!/usr/bin/env python3
"""usage: store_seeded.py <src-dir> <seeded-id> <property> <json-meta-extra>
Copies patch.diff, demo.py, notes.md into /verif/seeded/<seeded-id>/ and writes meta.json."""
import json, os, shutil, sys
src, sid, prop, extra = sys.argv[1], sys.argv[2], sys.argv[3], json.loads(sys.argv[4])
dst = os.path.join("/verif/seeded", sid)
os.makedirs(dst, exist_ok=True)
for f in ("patch.diff", "demo.py", "notes.md"):
    if os.path.exists(os.path.join(src, f)):
        shutil.copy(os.path.join(src, f), os.path.join(dst, f))
meta = {"id": sid, "breaks_property": prop, "origin": "independent sub-agent given only the property text and a scratch worktree of /repo"}
meta.update(extra)
json.dump(meta, open(os.path.join(dst, "meta.json"), "w"), indent=1)
print("stored", dst)
