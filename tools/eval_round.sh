#!/bin/bash
# usage: go.sh C12   -> copies A,B from the agent worktree, evaluates both
P=$1
for X in A B; do
  D=/tmp/r6/$P-R6$X; rm -rf $D; mkdir -p $D
  cp /tmp/wt6-$P/_seeded/$X/{patch.diff,demo.py,notes.md} $D/ 2>/dev/null
  (cd /verif && bash tools/eval_seeded.sh $D $P > /tmp/r6/eval-$P-R6$X.log 2>&1) &
done
wait
