#!/bin/bash
# usage: tools/run_mutants.sh <PROPERTY> [glob]   - runs every mutants/<PROPERTY>-*.patch against the property's quick check
PID="$1"; GLOB="${2:-$PID-*.patch}"
for p in /verif/mutants/$GLOB; do
  out=$(/verif/tools/run_mutant.sh "$p" "$PID" 2>&1)
  rc=$(echo "$out" | grep -o 'MUTANT-RESULT.*rc=[0-9]*' | grep -o '[0-9]*$')
  first=$(echo "$out" | grep -A2 '^VIOLATION' | grep -o '"klass": "[^"]*", "site": "[^"]*"' | head -1)
  echo "$(basename $p .patch) rc=$rc $first"
done
